#!/bin/sh
# Offline setup: builds the lowering tool from the installed clang-14 libraries. Everything else is Python stdlib.
set -e
cd "$(dirname "$0")"
python3 - <<'PY'
import sys
sys.path.insert(0, '.')
from sbv.build import ensure_cxx2c
print(ensure_cxx2c())
PY
