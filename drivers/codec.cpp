// Codec driver (C01/C02/C10/C11 library layer): byte codec and offset-based value accessors
// for the 11 SBE primitives x both byte orders, on library-only view types.
#include <sbepp/sbepp.hpp>
namespace sbv
{
using E = sbepp::endian;
using View = sbepp::detail::composite_base<char>;          // plain [begin,end) view
using CView = sbepp::detail::composite_base<const char>;   // read-only view
using Entry = sbepp::detail::entry_base<char, std::uint16_t>;

#define SBV_CODEC1(N, EN, EV)                                                                                         \
    sbepp::N##_t::value_type r_getp_##N##_##EN(const char* ptr)                                                       \
    { return sbepp::detail::get_primitive<sbepp::N##_t::value_type, EV>(ptr); }                                       \
    void r_setp_##N##_##EN(char* ptr, sbepp::N##_t::value_type value) { sbepp::detail::set_primitive<EV>(ptr, value); } \
    sbepp::N##_t r_getv_##N##_##EN(View view, std::size_t offset)                                                     \
    { return sbepp::detail::get_value<sbepp::N##_t, sbepp::N##_t::value_type, EV>(view, offset); }                    \
    sbepp::N##_t r_cgetv_##N##_##EN(CView view, std::size_t offset)                                                   \
    { return sbepp::detail::get_value<sbepp::N##_t, sbepp::N##_t::value_type, EV>(view, offset); }                    \
    void r_setv_##N##_##EN(View view, std::size_t offset, sbepp::N##_t::value_type value)                             \
    { sbepp::detail::set_value<EV>(view, offset, value); }
#define SBV_CODEC(N) SBV_CODEC1(N, le, E::little) SBV_CODEC1(N, be, E::big)
SBV_CODEC(char)
SBV_CODEC(int8)
SBV_CODEC(uint8)
SBV_CODEC(int16)
SBV_CODEC(uint16)
SBV_CODEC(int32)
SBV_CODEC(uint32)
SBV_CODEC(int64)
SBV_CODEC(uint64)
SBV_CODEC(float)
SBV_CODEC(double)

std::uint16_t r_bswap16(std::uint16_t v) { return sbepp::detail::byteswap(v); }
std::uint32_t r_bswap32(std::uint32_t v) { return sbepp::detail::byteswap(v); }
std::uint64_t r_bswap64(std::uint64_t v) { return sbepp::detail::byteswap(v); }

View r_static_view(View view, std::size_t offset) { return sbepp::detail::get_static_field_view<View>(view, offset); }
View r_first_dyn(Entry view) { return sbepp::detail::get_first_dynamic_field_view<View>(view); }
using Data32 = sbepp::detail::dynamic_array_ref<char, char, sbepp::uint32_t, E::little>;
using Data8be = sbepp::detail::dynamic_array_ref<char, char, sbepp::uint8_t, E::big>;
View r_next_dyn32(Entry view, Data32 prev) { return sbepp::detail::get_dynamic_field_view<View>(view, prev); }

// byte_range construction and conversion (C11: conversions only towards more-const byte types)
View r_range_ptrs(char* begin, char* end) { return View{begin, end}; }
View r_range_size(char* ptr, std::size_t size) { return View{ptr, size}; }
CView r_range_to_const(const View& other) { return CView{other}; }
Entry r_entry_ptrs(char* ptr, char* end, std::uint16_t block_length) { return Entry{ptr, end, block_length}; }
Entry r_entry_size(char* ptr, std::size_t size, std::uint16_t block_length) { return Entry{ptr, size, block_length}; }
std::uint16_t r_entry_bl(const Entry& e, sbepp::detail::get_block_length_tag t) { return e(t); }
char* r_entry_level(const Entry& e, sbepp::detail::get_level_tag t) { return e(t); }
char* r_addressof(View v) { return sbepp::addressof(v); }
} // namespace sbv
