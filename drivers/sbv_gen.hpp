// Helpers for the generated-layer drivers: uniform probing of whatever a generated accessor returns.
#pragma once
#include <sbepp/sbepp.hpp>
#include <cstring>
#include <cstdint>
#include <type_traits>

namespace sbv
{
struct vw
{
    const char* begin;
    const char* end;
};

template<typename V>
vw view_of(V v)
{
    return vw{sbepp::addressof(v), v(sbepp::detail::end_ptr_tag{})};
}

inline std::uint64_t bits(float v)
{
    std::uint32_t u;
    std::memcpy(&u, &v, 4);
    return u;
}
inline std::uint64_t bits(double v)
{
    std::uint64_t u;
    std::memcpy(&u, &v, 8);
    return u;
}
template<typename T, typename = typename std::enable_if<std::is_integral<T>::value>::type>
std::uint64_t bits(T v)
{
    return static_cast<std::uint64_t>(static_cast<typename std::make_unsigned<T>::type>(v));
}

// ---- type-level trait checks (C18): booleans computed by the compiler, returned as bit masks
template<typename L>
struct list_size;
template<typename... T>
struct list_size<sbepp::type_list<T...>> : std::integral_constant<std::size_t, sizeof...(T)>
{
};
template<typename L, typename X>
struct list_has;
template<typename X, typename... T>
struct list_has<sbepp::type_list<T...>, X> : std::integral_constant<bool, (std::is_same<T, X>::value || ...)>
{
};
// which tag-kind predicates accept Tag: bit 0 type, 1 enum, 2 enum value, 3 set, 4 set choice, 5 composite, 6 field, 7 group, 8 data, 9 message, 10 schema
template<typename Tag>
constexpr unsigned tag_kinds()
{
    return (sbepp::is_type_tag<Tag>::value ? 1u : 0u) | (sbepp::is_enum_tag<Tag>::value ? 2u : 0u) | (sbepp::is_enum_value_tag<Tag>::value ? 4u : 0u)
           | (sbepp::is_set_tag<Tag>::value ? 8u : 0u) | (sbepp::is_set_choice_tag<Tag>::value ? 16u : 0u) | (sbepp::is_composite_tag<Tag>::value ? 32u : 0u)
           | (sbepp::is_field_tag<Tag>::value ? 64u : 0u) | (sbepp::is_group_tag<Tag>::value ? 128u : 0u) | (sbepp::is_data_tag<Tag>::value ? 256u : 0u)
           | (sbepp::is_message_tag<Tag>::value ? 512u : 0u) | (sbepp::is_schema_tag<Tag>::value ? 1024u : 0u);
}
// 2: T is a view over const bytes, 1: over mutable bytes, 3: byte type not exposed
template<typename T>
auto view_code(int) -> std::integral_constant<int, std::is_const<sbepp::byte_type_t<typename std::remove_cv<typename std::remove_reference<T>::type>::type>>::value ? 2 : 1>;
template<typename T>
std::integral_constant<int, 3> view_code(long);
template<typename T>
using rmcvref_t = typename std::remove_cv<typename std::remove_reference<T>::type>::type;

// `deprecated()` exists only for entities that declare the attribute: report its value, or all-ones when the member is absent
template<typename T>
auto dep_of(int) -> decltype(static_cast<std::uint64_t>(T::deprecated()))
{
    return static_cast<std::uint64_t>(T::deprecated());
}
template<typename T>
std::uint64_t dep_of(long)
{
    return ~static_cast<std::uint64_t>(0);
}

// scalar-like results: required/optional wrappers (value()), sets (operator*), enums
template<typename T>
auto probe(T v, int) -> decltype(bits(v.value()))
{
    return bits(v.value());
}
template<typename T>
auto probe(T v, long) -> decltype(bits(*v))
{
    return bits(*v);
}
template<typename T, typename = typename std::enable_if<std::is_enum<T>::value>::type>
std::uint64_t probe(T v, char)
{
    return bits(sbepp::to_underlying(v));
}

// building a setter argument of wrapper type W from a raw primitive value
template<int N>
struct prio : prio<N - 1>
{
};
template<>
struct prio<0>
{
};
template<typename W, typename R>
auto make_impl(R raw, prio<2>) -> decltype(W{static_cast<typename W::value_type>(raw)})
{
    // through the wrapper's own value_type: the raw value has the schema's primitive type, the wrapper is whatever the generator chose
    return W{static_cast<typename W::value_type>(raw)};
}
template<typename W, typename R>
auto make_impl(R raw, prio<1>) -> decltype(W{raw})
{
    return W{raw};
}
template<typename W, typename R, typename = typename std::enable_if<std::is_enum<W>::value>::type>
W make_impl(R raw, prio<0>)
{
    return static_cast<W>(raw);
}
template<typename W, typename R>
W make(R raw, int)
{
    return make_impl<W>(raw, prio<2>{});
}
// recording visitor for visit_children (C19): logs kind, schema id and value/address of every callback, stops at callback `stop_at`
struct RecVisitor
{
    static constexpr unsigned CAP = 32;
    unsigned long n;
    unsigned long stop_at;
    unsigned char kind[CAP];       // 1 field, 2 group, 3 data
    unsigned short id[CAP];
    std::uint64_t val[CAP];        // scalar fields: bit pattern
    const char* ptr[CAP];          // view-like members: address

    template<typename T>
    auto value_of(T v, int) -> decltype(probe(v, 0), void())
    {
        val[n] = probe(v, 0);
        ptr[n] = nullptr;
    }
    template<typename T, typename = typename std::enable_if<std::is_arithmetic<T>::value>::type>
    void value_of(T v, int)
    {
        // a raw primitive (what a constant's accessor returns): recorded so that a callback for it is visible to the contract
        val[n] = bits(v);
        ptr[n] = nullptr;
    }
    template<typename T>
    void value_of(T v, long)
    {
        val[n] = 0;
        ptr[n] = sbepp::addressof(v);
    }
    bool done()
    {
        n++;
        return n == stop_at;
    }
    template<typename T, typename Tag>
    bool on_field(T v, Tag)
    {
        kind[n] = 1;
        id[n] = sbepp::field_traits<Tag>::id();
        value_of(v, 0);
        return done();
    }
    template<typename T, typename Cursor, typename Tag>
    bool on_group(T g, Cursor& c, Tag)
    {
        kind[n] = 2;
        id[n] = sbepp::group_traits<Tag>::id();
        val[n] = 0;
        ptr[n] = sbepp::addressof(g);
        // consume the (flat) group so that the next member finds the cursor where it expects it
        c.pointer() = sbepp::addressof(g) + sbepp::size_bytes(g);
        return done();
    }
    // composite children
    const char* name[CAP];
    template<typename T, typename Tag>
    bool on_type(T v, Tag)
    {
        kind[n] = 4;
        id[n] = 0;
        name[n] = sbepp::type_traits<Tag>::name();
        value_of(v, 0);
        return done();
    }
    template<typename T, typename Tag>
    bool on_enum(T v, Tag)
    {
        kind[n] = 5;
        id[n] = 0;
        name[n] = sbepp::enum_traits<Tag>::name();
        value_of(v, 0);
        return done();
    }
    template<typename T, typename Tag>
    bool on_set(T v, Tag)
    {
        kind[n] = 6;
        id[n] = 0;
        name[n] = sbepp::set_traits<Tag>::name();
        value_of(v, 0);
        return done();
    }
    template<typename T, typename Tag>
    bool on_composite(T v, Tag)
    {
        kind[n] = 7;
        id[n] = 0;
        name[n] = sbepp::composite_traits<Tag>::name();
        val[n] = 0;
        ptr[n] = sbepp::addressof(v);
        return done();
    }
    template<typename T, typename Tag>
    bool on_data(T d, Tag)
    {
        kind[n] = 3;
        id[n] = sbepp::data_traits<Tag>::id();
        val[n] = 0;
        ptr[n] = sbepp::addressof(d);
        return done();
    }
};

// set visiting: every choice once, in schema order, with its bit
struct SetVisitor
{
    unsigned n;
    unsigned char idx[64];
    bool val[64];
    template<typename Tag>
    void on_set_choice(bool v, Tag)
    {
        idx[n] = sbepp::set_choice_traits<Tag>::index();
        val[n] = v;
        n++;
    }
};
// enum visiting: the value's own tag or the unknown tag
struct EnumVisitor
{
    bool known;
    std::uint64_t tag_value;
    template<typename E, typename Tag>
    void on_enum_value(E, Tag)
    {
        known = true;
        tag_value = bits(sbepp::to_underlying(sbepp::enum_value_traits<Tag>::value()));
    }
    template<typename E>
    void on_enum_value(E, sbepp::unknown_enum_value_tag)
    {
        known = false;
        tag_value = 0;
    }
};

struct VisitResult
{
    RecVisitor v;
    bool stopped;
    const char* cursor;
};
} // namespace sbv
