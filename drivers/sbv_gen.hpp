// Helpers for the generated-layer drivers: uniform probing of whatever a generated accessor returns.
#pragma once
#include <sbepp/sbepp.hpp>
#include <cstring>
#include <cstdint>
#include <type_traits>

namespace sbv
{
struct vw
{
    const char* begin;
    const char* end;
};

template<typename V>
vw view_of(V v)
{
    return vw{sbepp::addressof(v), v(sbepp::detail::end_ptr_tag{})};
}

inline std::uint64_t bits(float v)
{
    std::uint32_t u;
    std::memcpy(&u, &v, 4);
    return u;
}
inline std::uint64_t bits(double v)
{
    std::uint64_t u;
    std::memcpy(&u, &v, 8);
    return u;
}
template<typename T, typename = typename std::enable_if<std::is_integral<T>::value>::type>
std::uint64_t bits(T v)
{
    return static_cast<std::uint64_t>(static_cast<typename std::make_unsigned<T>::type>(v));
}

// scalar-like results: required/optional wrappers (value()), sets (operator*), enums
template<typename T>
auto probe(T v, int) -> decltype(bits(v.value()))
{
    return bits(v.value());
}
template<typename T>
auto probe(T v, long) -> decltype(bits(*v))
{
    return bits(*v);
}
template<typename T, typename = typename std::enable_if<std::is_enum<T>::value>::type>
std::uint64_t probe(T v, char)
{
    return bits(sbepp::to_underlying(v));
}

// building a setter argument of wrapper type W from a raw primitive value
template<typename W, typename R>
auto make(R raw, int) -> decltype(W{raw})
{
    return W{raw};
}
template<typename W, typename R, typename = typename std::enable_if<std::is_enum<W>::value>::type>
W make(R raw, long)
{
    return static_cast<W>(raw);
}
} // namespace sbv
