// Cursor driver (C04/C03/C10/C11 library layer): the accessor methods of sbepp::cursor and of the four
// cursor wrappers, on library-only view types.
#include <sbepp/sbepp.hpp>
namespace sbv
{
using E = sbepp::endian;
using Entry = sbepp::detail::entry_base<char, std::uint16_t>;
using Arr = sbepp::detail::static_array_ref<char, char, 6, void>;
using Data = sbepp::detail::dynamic_array_ref<char, char, sbepp::uint32_t, E::little>;
struct DataGetter
{
    Data d;
    Data operator()() const { return d; }
};
using K_plain = sbepp::cursor<char>;
using K_init = sbepp::detail::init_cursor_wrapper<char>;
using K_idm = sbepp::detail::init_dont_move_cursor_wrapper<char>;
using K_dm = sbepp::detail::dont_move_cursor_wrapper<char>;
using K_skip = sbepp::detail::skip_cursor_wrapper<char>;

#define SBV_GET(K, N, EN, EV)                                                                                                  \
    auto r_##K##_get_##N##_##EN(K_##K& c, Entry view, std::size_t offset, std::size_t absolute_offset)                         \
        -> decltype(c.template get_value<sbepp::N##_t, sbepp::N##_t::value_type, EV>(view, offset, absolute_offset))           \
    { return c.template get_value<sbepp::N##_t, sbepp::N##_t::value_type, EV>(view, offset, absolute_offset); }                \
    auto r_##K##_getlast_##N##_##EN(K_##K& c, Entry view, std::size_t offset, std::size_t absolute_offset)                     \
        -> decltype(c.template get_last_value<sbepp::N##_t, sbepp::N##_t::value_type, EV>(view, offset, absolute_offset))      \
    { return c.template get_last_value<sbepp::N##_t, sbepp::N##_t::value_type, EV>(view, offset, absolute_offset); }
#define SBV_SET(K, N, EN, EV)                                                                                                  \
    void r_##K##_set_##N##_##EN(K_##K& c, Entry view, std::size_t offset, std::size_t absolute_offset, sbepp::N##_t::value_type value) \
    { c.template set_value<EV>(view, offset, absolute_offset, value); }                                                        \
    void r_##K##_setlast_##N##_##EN(K_##K& c, Entry view, std::size_t offset, std::size_t absolute_offset, sbepp::N##_t::value_type value) \
    { c.template set_last_value<EV>(view, offset, absolute_offset, value); }
#define SBV_VIEWS(K)                                                                                                           \
    auto r_##K##_static(K_##K& c, Entry view, std::size_t offset, std::size_t absolute_offset)                                 \
        -> decltype(c.template get_static_field_view<Arr>(view, offset, absolute_offset))                                      \
    { return c.template get_static_field_view<Arr>(view, offset, absolute_offset); }                                           \
    auto r_##K##_laststatic(K_##K& c, Entry view, std::size_t offset, std::size_t absolute_offset)                             \
        -> decltype(c.template get_last_static_field_view<Arr>(view, offset, absolute_offset))                                 \
    { return c.template get_last_static_field_view<Arr>(view, offset, absolute_offset); }                                      \
    auto r_##K##_firstdata(K_##K& c, Entry view) -> decltype(c.template get_first_data_view<Data>(view))                       \
    { return c.template get_first_data_view<Data>(view); }                                                                     \
    auto r_##K##_data(K_##K& c, Entry view, DataGetter& getter) -> decltype(c.template get_data_view<Data>(view, getter))      \
    { return c.template get_data_view<Data>(view, getter); }
#define SBV_TYPES(M, K) M(K, uint8, le, E::little) M(K, uint16, le, E::little) M(K, uint32, be, E::big) M(K, uint64, le, E::little) M(K, double, be, E::big)
#define SBV_KIND_RW(K) SBV_TYPES(SBV_GET, K) SBV_TYPES(SBV_SET, K) SBV_VIEWS(K)
SBV_KIND_RW(plain)
SBV_KIND_RW(init)
SBV_KIND_RW(idm)
SBV_KIND_RW(dm)
SBV_TYPES(SBV_GET, skip)
SBV_VIEWS(skip)

K_init r_wrap_init(K_plain& c) { return sbepp::cursor_ops::init(c); }
K_idm r_wrap_idm(K_plain& c) { return sbepp::cursor_ops::init_dont_move(c); }
K_dm r_wrap_dm(K_plain& c) { return sbepp::cursor_ops::dont_move(c); }
K_skip r_wrap_skip(K_plain& c) { return sbepp::cursor_ops::skip(c); }
char*& r_cursor_pointer(K_plain& c) { return c.pointer(); }
char* r_cursor_pointer_c(const K_plain& c) { return c.pointer(); }
sbepp::cursor<const char> r_cursor_to_const(K_plain c) { return sbepp::cursor<const char>{c}; }
// entry construction from a cursor (group iteration by cursor)
Entry r_entry_from_cursor(K_plain& c, char* end_ptr, std::uint16_t block_length) { return Entry{c, end_ptr, block_length}; }
} // namespace sbv
