// Root wrappers for required/optional scalar wrapper types (built-in and schema-defined): one root per operation under contract.
#pragma once
#include <sbepp/sbepp.hpp>
#define SBV_REQ_T(N, RT)                                                                                   \
    using R_##N = RT;                                                                               \
    using V_##N = R_##N::value_type;                                                                 \
    V_##N r_req_value_##N(const R_##N& a) { return a.value(); }                                      \
    V_##N r_req_deref_##N(const R_##N& a) { return *a; }                                             \
    V_##N& r_req_derefm_##N(R_##N& a) { return *a; }                                                 \
    bool r_req_in_range_##N(const R_##N& a) { return a.in_range(); }                                 \
    bool r_req_eq_##N(const R_##N& a, const R_##N& b) { return a == b; }                             \
    bool r_req_ne_##N(const R_##N& a, const R_##N& b) { return a != b; }                             \
    bool r_req_lt_##N(const R_##N& a, const R_##N& b) { return a < b; }                              \
    bool r_req_le_##N(const R_##N& a, const R_##N& b) { return a <= b; }                             \
    bool r_req_gt_##N(const R_##N& a, const R_##N& b) { return a > b; }                              \
    bool r_req_ge_##N(const R_##N& a, const R_##N& b) { return a >= b; }                             \
    R_##N r_req_default_##N() { return R_##N{}; }                                                    \
    R_##N r_req_from_##N(V_##N v) { return R_##N{v}; }                                               \
    V_##N r_req_min_##N() { return R_##N::min_value(); }                                             \
    V_##N r_req_max_##N() { return R_##N::max_value(); }

#define SBV_OPT_T(N, OT)                                                                                   \
    using O_##N = OT;                                                                               \
    using OV_##N = O_##N::value_type;                                                                \
    OV_##N r_opt_value_##N(const O_##N& a) { return a.value(); }                                      \
    OV_##N r_opt_deref_##N(const O_##N& a) { return *a; }                                             \
    OV_##N& r_opt_derefm_##N(O_##N& a) { return *a; }                                                 \
    bool r_opt_in_range_##N(const O_##N& a) { return a.in_range(); }                                 \
    bool r_opt_has_value_##N(const O_##N& a) { return a.has_value(); }                               \
    bool r_opt_bool_##N(const O_##N& a) { return static_cast<bool>(a); }                             \
    OV_##N r_opt_value_or_##N(const O_##N& a, OV_##N d) { return a.value_or(d); }                      \
    bool r_opt_eq_##N(const O_##N& a, const O_##N& b) { return a == b; }                             \
    bool r_opt_ne_##N(const O_##N& a, const O_##N& b) { return a != b; }                             \
    bool r_opt_lt_##N(const O_##N& a, const O_##N& b) { return a < b; }                              \
    bool r_opt_le_##N(const O_##N& a, const O_##N& b) { return a <= b; }                             \
    bool r_opt_gt_##N(const O_##N& a, const O_##N& b) { return a > b; }                              \
    bool r_opt_ge_##N(const O_##N& a, const O_##N& b) { return a >= b; }                             \
    O_##N r_opt_default_##N() { return O_##N{}; }                                                    \
    O_##N r_opt_nullopt_##N() { return O_##N{sbepp::nullopt}; }                                      \
    O_##N r_opt_from_##N(OV_##N v) { return O_##N{v}; }                                               \
    OV_##N r_opt_min_##N() { return O_##N::min_value(); }                                             \
    OV_##N r_opt_max_##N() { return O_##N::max_value(); }                                             \
    OV_##N r_opt_null_##N() { return O_##N::null_value(); }

