// Groups driver (C12/C05/C03/C04/C10/C11/C19 library layer): flat_group_base, nested_group_base, random_access_iterator,
// forward_iterator, input_iterator and cursor_range for (blockLength type, numInGroup type) pairs of the dims16 corpus schema.
// SBV_PAIRS selects the pairs (default: a representative set; -DSBV_ALL_PAIRS: all 16).
#include <sbepp/sbepp.hpp>
#include <dims16/dims16.hpp>
namespace sbv
{
using namespace sbepp::detail;
using Cur = sbepp::cursor<char>;
struct StopVisitor
{
    unsigned long calls;
    unsigned long stop_at;
    template<typename E, typename C>
    bool on_entry(E, C&)
    {
        calls++;
        return calls == stop_at;
    }
};

#define SBV_FLAT(P)                                                                                                     \
    using FM_##P = dims16::messages::F_##P<char>;                                                                       \
    using FG_##P = decltype(std::declval<FM_##P>().g());                                                                \
    using FI_##P = FG_##P::iterator;                                                                                    \
    using FE_##P = FG_##P::value_type;                                                                                  \
    using FD_##P = FG_##P::difference_type;                                                                             \
    using FS_##P = FG_##P::size_type;                                                                                   \
    std::size_t r_f_size_bytes_##P(const FG_##P& g, size_bytes_tag t) { return g(t); }                                  \
    auto r_f_header_##P(const FG_##P& g, get_header_tag t) -> decltype(g(t)) { return g(t); }                           \
    FG_##P::sbe_size_type r_f_sbe_size_##P(const FG_##P& g) { return g.sbe_size(); }                                    \
    FS_##P r_f_size_##P(const FG_##P& g) { return g.size(); }                                                           \
    void r_f_resize_##P(const FG_##P& g, FS_##P count) { g.resize(count); }                                             \
    void r_f_clear_##P(const FG_##P& g) { g.clear(); }                                                                  \
    bool r_f_empty_##P(const FG_##P& g) { return g.empty(); }                                                           \
    FS_##P r_f_max_size_##P() { return FG_##P::max_size(); }                                                            \
    FI_##P r_f_begin_##P(const FG_##P& g) { return g.begin(); }                                                         \
    FI_##P r_f_end_##P(const FG_##P& g) { return g.end(); }                                                             \
    FE_##P r_f_at_##P(const FG_##P& g, FS_##P pos) { return g[pos]; }                                                   \
    FE_##P r_f_front_##P(const FG_##P& g) { return g.front(); }                                                         \
    FE_##P r_f_back_##P(const FG_##P& g) { return g.back(); }                                                           \
    FG_##P::cursor_range_t<char> r_f_crange_##P(const FG_##P& g, Cur& c) { return g.cursor_range(c); }                  \
    FG_##P::cursor_range_t<char> r_f_csub1_##P(const FG_##P& g, Cur& c, FS_##P pos) { return g.cursor_subrange(c, pos); } \
    FG_##P::cursor_range_t<char> r_f_csub2_##P(const FG_##P& g, Cur& c, FS_##P pos, FS_##P count) { return g.cursor_subrange(c, pos, count); } \
    FG_##P::cursor_iterator<char> r_f_cbegin_##P(const FG_##P& g, Cur& c) { return g.cursor_begin(c); }                 \
    FG_##P::cursor_iterator<char> r_f_cend_##P(const FG_##P& g, Cur& c) { return g.cursor_end(c); }                     \
    bool r_f_visit_##P(FG_##P& g, visit_children_tag t, StopVisitor& v, Cur& c) { return g(t, v, c); }                  \
    /* random access iterator */                                                                                        \
    FE_##P r_it_deref_##P(const FI_##P& it) { return *it; }                                                             \
    FI_##P& r_it_inc_##P(FI_##P& it) { return ++it; }                                                                   \
    FI_##P r_it_postinc_##P(FI_##P& it) { return it++; }                                                                \
    FI_##P& r_it_dec_##P(FI_##P& it) { return --it; }                                                                   \
    FI_##P r_it_postdec_##P(FI_##P& it) { return it--; }                                                                \
    FI_##P& r_it_addeq_##P(FI_##P& it, FD_##P n) { return it += n; }                                                    \
    FI_##P r_it_add_##P(const FI_##P& it, FD_##P n) { return it + n; }                                                  \
    FI_##P r_it_radd_##P(FD_##P n, const FI_##P& it) { return n + it; }                                                 \
    FI_##P& r_it_subeq_##P(FI_##P& it, FD_##P n) { return it -= n; }                                                    \
    FI_##P r_it_sub_##P(const FI_##P& it, FD_##P n) { return it - n; }                                                  \
    FD_##P r_it_diff_##P(const FI_##P& a, const FI_##P& b) { return a - b; }                                            \
    FE_##P r_it_index_##P(const FI_##P& it, FD_##P n) { return it[n]; }                                                 \
    bool r_it_eq_##P(const FI_##P& a, const FI_##P& b) { return a == b; }                                               \
    bool r_it_ne_##P(const FI_##P& a, const FI_##P& b) { return a != b; }                                               \
    bool r_it_lt_##P(const FI_##P& a, const FI_##P& b) { return a < b; }                                                \
    bool r_it_le_##P(const FI_##P& a, const FI_##P& b) { return a <= b; }                                               \
    bool r_it_gt_##P(const FI_##P& a, const FI_##P& b) { return a > b; }                                                \
    bool r_it_ge_##P(const FI_##P& a, const FI_##P& b) { return a >= b; }                                               \
    /* cursor range / input iterator */                                                                                 \
    using CR_##P = FG_##P::cursor_range_t<char>;                                                                        \
    using CI_##P = CR_##P::iterator;                                                                                    \
    CI_##P r_cr_begin_##P(const CR_##P& r) { return r.begin(); }                                                        \
    CI_##P r_cr_end_##P(const CR_##P& r) { return r.end(); }                                                            \
    FS_##P r_cr_size_##P(const CR_##P& r) { return r.size(); }                                                          \
    FE_##P r_ci_deref_##P(const CI_##P& it) { return *it; }                                                             \
    CI_##P& r_ci_inc_##P(CI_##P& it) { return ++it; }                                                                   \
    bool r_ci_eq_##P(const CI_##P& a, const CI_##P& b) { return a == b; }                                               \
    bool r_ci_ne_##P(const CI_##P& a, const CI_##P& b) { return a != b; }                                               \
    /* laws stated over the real operators */                                                                           \
    struct Law_##P { const char* p1; const char* p2; bool b; FD_##P d; };                                               \
    Law_##P r_law_begin_plus_size_is_end_##P(const FG_##P& g)                                                           \
    { auto a = g.begin() + static_cast<FD_##P>(g.size()); auto e = g.end(); return Law_##P{sbepp::addressof(*a), sbepp::addressof(*e), a == e, 0}; } \
    Law_##P r_law_index_is_deref_plus_##P(const FI_##P& it, FD_##P n)                                                   \
    { return Law_##P{sbepp::addressof(it[n]), sbepp::addressof(*(it + n)), true, 0}; }                                  \
    Law_##P r_law_add_then_sub_##P(const FI_##P& it, FD_##P n)                                                          \
    { auto b = (it + n) - n; return Law_##P{sbepp::addressof(*b), sbepp::addressof(*it), b == it, static_cast<FD_##P>((it + n) - it)}; }

#define SBV_NESTED(P)                                                                                                   \
    using NM_##P = dims16::messages::N_##P<char>;                                                                       \
    using NG_##P = decltype(std::declval<NM_##P>().g());                                                                \
    using NI_##P = NG_##P::iterator;                                                                                    \
    using NE_##P = NG_##P::value_type;                                                                                  \
    using NS_##P = NG_##P::size_type;                                                                                   \
    std::size_t r_n_size_bytes_##P(const NG_##P& g, size_bytes_tag t) { return g(t); }                                  \
    auto r_n_header_##P(const NG_##P& g, get_header_tag t) -> decltype(g(t)) { return g(t); }                           \
    NS_##P r_n_size_##P(const NG_##P& g) { return g.size(); }                                                           \
    void r_n_resize_##P(const NG_##P& g, NS_##P count) { g.resize(count); }                                             \
    void r_n_clear_##P(const NG_##P& g) { g.clear(); }                                                                  \
    bool r_n_empty_##P(const NG_##P& g) { return g.empty(); }                                                           \
    NI_##P r_n_begin_##P(const NG_##P& g) { return g.begin(); }                                                         \
    NI_##P r_n_end_##P(const NG_##P& g) { return g.end(); }                                                             \
    NE_##P r_n_front_##P(const NG_##P& g) { return g.front(); }                                                         \
    std::size_t r_n_entry_size_##P(const NE_##P& e, size_bytes_tag t) { return e(t); }                                  \
    NE_##P r_fi_deref_##P(const NI_##P& it) { return *it; }                                                             \
    NI_##P& r_fi_inc_##P(NI_##P& it) { return ++it; }                                                                   \
    NI_##P r_fi_postinc_##P(NI_##P& it) { return it++; }                                                                \
    bool r_fi_eq_##P(const NI_##P& a, const NI_##P& b) { return a == b; }                                               \
    bool r_fi_ne_##P(const NI_##P& a, const NI_##P& b) { return a != b; }                                               \
    bool r_n_visit_##P(NG_##P& g, visit_children_tag t, StopVisitor& v, Cur& c) { return g(t, v, c); }

#ifdef SBV_ALL_PAIRS
#define SBV_PAIRS(M) M(b8_n8) M(b8_n16) M(b8_n32) M(b8_n64) M(b16_n8) M(b16_n16) M(b16_n32) M(b16_n64) M(b32_n8) M(b32_n16) M(b32_n32) M(b32_n64) M(b64_n8) M(b64_n16) M(b64_n32) M(b64_n64)
#else
#define SBV_PAIRS(M) M(b16_n16) M(b32_n8) M(b64_n16)
#endif
SBV_PAIRS(SBV_FLAT)
SBV_PAIRS(SBV_NESTED)
} // namespace sbv
