// C16 driver: the 22 built-in required/optional types.
#include <sbepp/sbepp.hpp>
#include "sbv_scalar_roots.hpp"
namespace sbv
{
#define SBV_REQ(N) SBV_REQ_T(N, sbepp::N##_t)
#define SBV_OPT(N) SBV_OPT_T(N, sbepp::N##_opt_t)
#define SBV_BOTH(N) SBV_REQ(N) SBV_OPT(N)
SBV_BOTH(char)
SBV_BOTH(int8)
SBV_BOTH(uint8)
SBV_BOTH(int16)
SBV_BOTH(uint16)
SBV_BOTH(int32)
SBV_BOTH(uint32)
SBV_BOTH(int64)
SBV_BOTH(uint64)
SBV_BOTH(float)
SBV_BOTH(double)
} // namespace sbv
