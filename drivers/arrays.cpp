// Arrays driver (C13/C14/C10/C11 library layer): dynamic_array_ref (<data>) and static_array_ref (fixed arrays).
// Data view types are the generated ones of the dims16/dims16be corpus schemas (generated length types).
#include <sbepp/sbepp.hpp>
#include <dims16/dims16.hpp>
#include <dims16be/dims16be.hpp>
#include <initializer_list>
namespace sbv
{
// minimal single-pass input iterator over a byte buffer (selects dynamic_array_ref::insert_impl(..., input_iterator_tag))
template<typename T>
struct InIt
{
    using iterator_category = std::input_iterator_tag;
    using value_type = T;
    using difference_type = std::ptrdiff_t;
    using pointer = const T*;
    using reference = T;
    const T* p;
    T operator*() const { return *p; }
    InIt& operator++() { ++p; return *this; }
    bool operator==(const InIt& o) const { return p == o.p; }
    bool operator!=(const InIt& o) const { return p != o.p; }
};

// minimal range over a contiguous buffer (selects the assign_range / assign_string(range) overloads)
template<typename T>
struct Rng
{
    const T* b;
    const T* e;
    const T* begin() const { return b; }
    const T* end() const { return e; }
};

#define SBV_DYN(ID, SCHEMA, MSG)                                                                                       \
    using D_##ID = decltype(std::declval<SCHEMA::messages::MSG<char>>().d());                                          \
    using DV_##ID = D_##ID::value_type;                                                                                \
    using DS_##ID = D_##ID::size_type;                                                                                 \
    using DI_##ID = D_##ID::iterator;                                                                                  \
    DI_##ID r_d_begin_##ID(const D_##ID& d) { return d.begin(); }                                                      \
    DI_##ID r_d_end_##ID(const D_##ID& d) { return d.end(); }                                                          \
    DV_##ID& r_d_front_##ID(const D_##ID& d) { return d.front(); }                                                     \
    DV_##ID& r_d_back_##ID(const D_##ID& d) { return d.back(); }                                                       \
    DV_##ID* r_d_data_##ID(const D_##ID& d) { return d.data(); }                                                       \
    DV_##ID& r_d_at_##ID(const D_##ID& d, DS_##ID pos) { return d[pos]; }                                              \
    D_##ID::sbe_size_type r_d_sbe_size_##ID(const D_##ID& d) { return d.sbe_size(); }                                  \
    DS_##ID r_d_size_##ID(const D_##ID& d) { return d.size(); }                                                        \
    bool r_d_empty_##ID(const D_##ID& d) { return d.empty(); }                                                         \
    DS_##ID r_d_max_size_##ID() { return D_##ID::max_size(); }                                                         \
    std::size_t r_d_size_bytes_##ID(const D_##ID& d, sbepp::detail::size_bytes_tag t) { return d(t); }                 \
    void r_d_clear_##ID(const D_##ID& d) { d.clear(); }                                                                \
    void r_d_resize_##ID(const D_##ID& d, DS_##ID count) { d.resize(count); }                                          \
    void r_d_resize_v_##ID(const D_##ID& d, DS_##ID count, DV_##ID value) { d.resize(count, value); }                  \
    void r_d_resize_di_##ID(const D_##ID& d, DS_##ID count, sbepp::default_init_t t) { d.resize(count, t); }           \
    void r_d_push_back_##ID(const D_##ID& d, DV_##ID value) { d.push_back(value); }                                    \
    void r_d_pop_back_##ID(const D_##ID& d) { d.pop_back(); }                                                          \
    DI_##ID r_d_erase_##ID(const D_##ID& d, DI_##ID pos) { return d.erase(pos); }                                      \
    DI_##ID r_d_erase_range_##ID(const D_##ID& d, DI_##ID first, DI_##ID last) { return d.erase(first, last); }        \
    DI_##ID r_d_insert_##ID(const D_##ID& d, DI_##ID pos, const DV_##ID value) { return d.insert(pos, value); }        \
    DI_##ID r_d_insert_n_##ID(const D_##ID& d, DI_##ID pos, DS_##ID count, const DV_##ID value) { return d.insert(pos, count, value); } \
    DI_##ID r_d_insert_range_##ID(const D_##ID& d, DI_##ID pos, const DV_##ID* first, const DV_##ID* last) { return d.insert(pos, first, last); } \
    DI_##ID r_d_insert_input_##ID(const D_##ID& d, DI_##ID pos, InIt<DV_##ID> first, InIt<DV_##ID> last) { return d.insert(pos, first, last); } \
    DI_##ID r_d_insert_ilist_##ID(const D_##ID& d, DI_##ID pos, std::initializer_list<DV_##ID> ilist) { return d.insert(pos, ilist); } \
    void r_d_assign_n_##ID(const D_##ID& d, DS_##ID count, const DV_##ID value) { d.assign(count, value); }            \
    void r_d_assign_range_it_##ID(const D_##ID& d, const DV_##ID* first, const DV_##ID* last) { d.assign(first, last); } \
    void r_d_assign_ilist_##ID(const D_##ID& d, std::initializer_list<DV_##ID> ilist) { d.assign(ilist); }             \
    void r_d_assign_string_##ID(const D_##ID& d, const char* str) { d.assign_string(str); }                            \
    void r_d_assign_range_##ID(const D_##ID& d, Rng<DV_##ID>& r) { d.assign_range(r); }                                \
    auto r_d_raw_##ID(const D_##ID& d) -> decltype(d.raw()) { return d.raw(); }

SBV_DYN(l8c_le, dims16, D_l8_c)
SBV_DYN(l32u_be, dims16be, D_l32_u)
#ifdef SBV_ALL_DATA
SBV_DYN(l8u_le, dims16, D_l8_u)
SBV_DYN(l8i_le, dims16, D_l8_i)
SBV_DYN(l16c_le, dims16, D_l16_c)
SBV_DYN(l16u_be, dims16be, D_l16_u)
SBV_DYN(l32c_le, dims16, D_l32_c)
SBV_DYN(l32i_be, dims16be, D_l32_i)
SBV_DYN(l64c_le, dims16, D_l64_c)
SBV_DYN(l64u_be, dims16be, D_l64_u)
SBV_DYN(l8c_be, dims16be, D_l8_c)
SBV_DYN(l64i_le, dims16, D_l64_i)
#endif

struct CharRange
{
    const char* b;
    const char* e;
    const char* begin() const { return b; }
    const char* end() const { return e; }
};

#define SBV_STATIC(N)                                                                                                  \
    using A_##N = sbepp::detail::static_array_ref<char, char, N, void>;                                                \
    std::size_t r_a_strlen_##N(const A_##N& a) { return a.strlen(); }                                                  \
    std::size_t r_a_strlen_r_##N(const A_##N& a) { return a.strlen_r(); }                                              \
    char* r_a_assign_string_##N(const A_##N& a, const char* str, sbepp::eos_null eos_mode) { return a.assign_string(str, eos_mode); } \
    char* r_a_assign_string_range_##N(const A_##N& a, CharRange& r, sbepp::eos_null eos_mode) { return a.assign_string(r, eos_mode); } \
    char* r_a_assign_range_##N(const A_##N& a, CharRange& r) { return a.assign_range(r); }                             \
    void r_a_fill_##N(const A_##N& a, char value) { a.fill(value); }                                                   \
    char* r_a_assign_n_##N(const A_##N& a, std::size_t count, char value) { return a.assign(count, value); }           \
    char* r_a_assign_it_##N(const A_##N& a, const char* first, const char* last) { return a.assign(first, last); }     \
    char* r_a_assign_ilist_##N(const A_##N& a, std::initializer_list<char> ilist) { return a.assign(ilist); }          \
    char& r_a_at_##N(const A_##N& a, std::size_t pos) { return a[pos]; }                                               \
    char* r_a_data_##N(const A_##N& a) { return a.data(); }                                                            \
    char* r_a_begin_##N(const A_##N& a) { return a.begin(); }                                                          \
    char* r_a_end_##N(const A_##N& a) { return a.end(); }                                                              \
    std::size_t r_a_size_##N() { return A_##N::size(); }                                                               \
    std::size_t r_a_size_bytes_##N(const A_##N& a, sbepp::detail::size_bytes_tag t) { return a(t); }                   \
    auto r_a_raw_##N(const A_##N& a) -> decltype(a.raw()) { return a.raw(); }
SBV_STATIC(1)
SBV_STATIC(2)
SBV_STATIC(3)
SBV_STATIC(4)
SBV_STATIC(8)
using A_0 = sbepp::detail::static_array_ref<char, char, 0, void>;
std::size_t r_a_strlen_r_0(const A_0& a) { return a.strlen_r(); }
char* r_a_assign_n_0(const A_0& a, std::size_t count, char value) { return a.assign(count, value); }
char* r_a_assign_string_0(const A_0& a, const char* str, sbepp::eos_null eos_mode) { return a.assign_string(str, eos_mode); }
} // namespace sbv
