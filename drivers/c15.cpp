// C15 driver: instantiates bitset_base<T> for the four SBE set encodings.
// Every root forwards its own parameters, in order, to exactly one function under contract.
#include <sbepp/sbepp.hpp>
namespace sbv
{
using sbepp::choice_index_t;
using sbepp::detail::get_bit_tag;
using sbepp::detail::set_bit_tag;
#define SBV_BITSET(W)                                                                                            \
    using B##W = sbepp::detail::bitset_base<std::uint##W##_t>;                                                   \
    bool r_get_bit##W(const B##W& s, get_bit_tag t, choice_index_t n) { return s(t, n); }                        \
    void r_set_bit##W(B##W& s, set_bit_tag t, choice_index_t n, bool b) { s(t, n, b); }                          \
    std::uint##W##_t r_raw##W(const B##W& s) { return *s; }                                                      \
    std::uint##W##_t& r_rawref##W(B##W& s) { return *s; }                                                        \
    bool r_eq##W(const B##W& a, const B##W& b) { return a == b; }                                                \
    bool r_ne##W(const B##W& a, const B##W& b) { return a != b; }                                                \
    B##W r_ctor##W(std::uint##W##_t v) { return B##W{v}; }                                                        \
    B##W r_default##W() { return B##W{}; }
SBV_BITSET(8)
SBV_BITSET(16)
SBV_BITSET(32)
SBV_BITSET(64)
} // namespace sbv
