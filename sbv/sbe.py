"""SBE 1.0 primitive type table (independent of the code under verification)."""

# name: (C type as lowered, size, signed, is_float, min, max, null)  -- values as C expressions
PRIMS = {
    "char":   dict(c="char", size=1, signed=True, fp=False, min="32", max="126", null="0"),
    "int8":   dict(c="signed char", size=1, signed=True, fp=False, min="(-127)", max="127", null="(-128)"),
    "uint8":  dict(c="unsigned char", size=1, signed=False, fp=False, min="0", max="254", null="255"),
    "int16":  dict(c="short", size=2, signed=True, fp=False, min="(-32767)", max="32767", null="(-32768)"),
    "uint16": dict(c="unsigned short", size=2, signed=False, fp=False, min="0", max="65534", null="65535"),
    "int32":  dict(c="int", size=4, signed=True, fp=False, min="(-2147483647)", max="2147483647", null="(-2147483647-1)"),
    "uint32": dict(c="unsigned int", size=4, signed=False, fp=False, min="0U", max="4294967294U", null="4294967295U"),
    "int64":  dict(c="long", size=8, signed=True, fp=False, min="(-9223372036854775807L)", max="9223372036854775807L", null="(-9223372036854775807L-1)"),
    "uint64": dict(c="unsigned long", size=8, signed=False, fp=False, min="0UL", max="18446744073709551614UL", null="18446744073709551615UL"),
    "float":  dict(c="float", size=4, signed=True, fp=True, min="1.17549435e-38F", max="3.40282347e+38F", null="NAN"),
    "double": dict(c="double", size=8, signed=True, fp=True, min="2.2250738585072014e-308", max="1.7976931348623157e+308", null="NAN"),
}
ORDER = ["char", "int8", "uint8", "int16", "uint16", "int32", "uint32", "int64", "uint64", "float", "double"]
UNSIGNED = ["uint8", "uint16", "uint32", "uint64"]


def bits(name, expr):
    """bit pattern of a value of primitive `name` as uint64"""
    p = PRIMS[name]
    if p["fp"]:
        return "SPEC_BITS_f%d(%s)" % (p["size"] * 8, expr)
    return "SPEC_BITS_i%d(%s)" % (p["size"] * 8, expr)


def is_null(name, expr):
    p = PRIMS[name]
    if p["fp"]:
        return "((%s) != (%s))" % (expr, expr)  # NaN
    return "((%s) == %s)" % (expr, p["null"])


def load(p, w, be):
    """explicit byte-wise value of the w-byte field at pointer expression p (no ternaries: usable inside OLD() and assigns conditions)"""
    idx = list(range(w))
    terms = []
    for i in idx:
        sh = 8 * ((w - 1 - i) if be else i)
        terms.append("(SPEC_B(%s, %d) << %d)" % (p, i, sh) if sh else "SPEC_B(%s, %d)" % (p, i))
    return "(" + " | ".join(terms) + ")"
