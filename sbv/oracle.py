"""Independent reading of an SBE XML schema: layout (offsets, sizes, block lengths), headers, traits values.

This is the specification side for everything sbeppc generates; it shares no code with sbeppc.
Rules implemented (SBE 1.0): primitive sizes; arrays = size*length; constants occupy no space; member/field offset =
explicit `offset` or end of previous member; composite size = end of last member; blockLength = max(explicit, computed);
`ref` reuses a public type under a new name; encodingType of enum/set is a primitive or a named scalar type."""
import xml.etree.ElementTree as ET

from .sbe import PRIMS

NS = "{http://fixprotocol.io/2016/sbe}"


def _local(tag):
    return tag.split("}")[-1]


class Enc:
    """encoded form of a type at a use site"""

    def __init__(self, kind, name, prim=None, length=1, presence="required", members=None, size=0, const_value=None, attrs=None, values=None, type_name=None):
        self.kind = kind  # scalar | array | enum | set | composite
        self.name = name
        self.prim = prim
        self.length = length
        self.presence = presence
        self.members = members or []  # [(member name, Enc, offset)]
        self.size = size
        self.const_value = const_value
        self.attrs = attrs or {}
        self.values = values or []  # enum: [(name, text)], set: [(name, index)]
        self.type_name = type_name  # public type name if any

    @property
    def constant(self):
        return self.presence == "constant"

    def member(self, name):
        for n, e, o in self.members:
            if n == name:
                return e, o
        raise KeyError(name)


class Level:
    def __init__(self, name, kind):
        self.name = name
        self.kind = kind  # message | group
        self.fields = []  # [(name, Enc, offset, attrs)]
        self.groups = []  # [Level]
        self.data = []  # [(name, Enc(composite length/varData), attrs)]
        self.block_length = 0
        self.explicit_block_length = None
        self.attrs = {}
        self.dimension = None  # Enc composite (groups)
        self.path = []

    def members_in_order(self):
        return [("field", f) for f in self.fields] + [("group", g) for g in self.groups] + [("data", d) for d in self.data]


class Schema:
    def __init__(self, path):
        self.path = path
        root = ET.parse(path).getroot()
        self.root = root
        a = root.attrib
        self.package = a.get("package", "")
        self.id = int(a.get("id", "0"))
        self.version = int(a.get("version", "0"))
        self.semantic_version = a.get("semanticVersion", "")
        self.description = a.get("description", "")
        self.big_endian = a.get("byteOrder", "littleEndian") == "bigEndian"
        self.header_type = a.get("headerType", "messageHeader")
        self.types = {}
        for types in root.iter("types"):
            for t in types:
                if isinstance(t.tag, str):
                    self.types[t.attrib["name"]] = t
        self.messages = []
        for m in root:
            if _local(m.tag) == "message":
                self.messages.append(self._level(m, "message", []))
        self.header = self.enc_of_type(self.header_type)

    # ------------------------------------------------------------------ types
    def enc_of_type(self, tname, presence_override=None):
        if tname in PRIMS and tname not in self.types:
            return Enc("scalar", tname, prim=tname, size=PRIMS[tname]["size"], presence=presence_override or "required", type_name=None)
        if tname not in self.types:
            raise KeyError("unknown type " + tname)
        return self.enc_of_node(self.types[tname], presence_override, public=True)

    def enc_of_node(self, node, presence_override=None, public=False):
        tag = _local(node.tag)
        a = node.attrib
        name = a.get("name")
        if tag == "type":
            prim = a["primitiveType"]
            presence = presence_override or a.get("presence", "required")
            length = int(a.get("length", "1"))
            text = (node.text or "").strip()
            const_value = None
            if presence == "constant":
                const_value = text if "valueRef" not in a else ("ref:" + a["valueRef"])
                if prim == "char" and "length" not in a and "valueRef" not in a:
                    length = max(1, len(text))
            size = 0 if presence == "constant" else PRIMS[prim]["size"] * length
            kind = "scalar" if (length == 1 and not (presence == "constant" and prim == "char" and len(text) > 1)) else "array"
            if length != 1:
                kind = "array"
            return Enc(kind, name, prim=prim, length=length, presence=presence, size=size, const_value=const_value, attrs=dict(a), type_name=name if public else None)
        if tag == "enum":
            et = a["encodingType"]
            prim = et if et in PRIMS and et not in self.types else self.types[et].attrib["primitiveType"]
            vals = [(v.attrib["name"], (v.text or "").strip(), dict(v.attrib)) for v in node if _local(v.tag) == "validValue"]
            return Enc("enum", name, prim=prim, size=PRIMS[prim]["size"], attrs=dict(a), values=vals, type_name=name if public else None)
        if tag == "set":
            et = a["encodingType"]
            prim = et if et in PRIMS and et not in self.types else self.types[et].attrib["primitiveType"]
            vals = [(v.attrib["name"], int((v.text or "0").strip()), dict(v.attrib)) for v in node if _local(v.tag) == "choice"]
            return Enc("set", name, prim=prim, size=PRIMS[prim]["size"], attrs=dict(a), values=vals, type_name=name if public else None)
        if tag == "composite":
            members = []
            off = 0
            for ch in node:
                if not isinstance(ch.tag, str):
                    continue
                ctag = _local(ch.tag)
                if ctag == "ref":
                    e = self.enc_of_type(ch.attrib["type"])
                    e.ref_name = ch.attrib["name"]
                    mname = ch.attrib["name"]
                else:
                    e = self.enc_of_node(ch)
                    mname = ch.attrib["name"]
                if "offset" in ch.attrib:
                    off = int(ch.attrib["offset"])
                members.append((mname, e, off))
                off += e.size
            return Enc("composite", name, members=members, size=off, attrs=dict(a), type_name=name if public else None)
        raise ValueError("unknown type element " + tag)

    # ------------------------------------------------------------------ levels
    def _level(self, node, kind, path):
        a = node.attrib
        L = Level(a["name"], kind)
        L.attrs = dict(a)
        L.path = path + [a["name"]]
        off = 0
        for ch in node:
            if not isinstance(ch.tag, str):
                continue
            tag = _local(ch.tag)
            ca = ch.attrib
            if tag == "field":
                pres = ca.get("presence")
                e = self.enc_of_type(ca["type"], presence_override=pres if pres else None) if not (ca["type"] in self.types) else self.enc_of_type(ca["type"])
                if pres == "constant" and ca["type"] in self.types:
                    e = self.enc_of_type(ca["type"])
                    e.presence = "constant"
                    e.size = 0
                    e.const_value = "ref:" + ca.get("valueRef", "")
                elif pres and ca["type"] in self.types and e.kind in ("scalar", "array") and e.presence != "constant":
                    pass  # presence of a named type is the type's own
                if "offset" in ca:
                    off = int(ca["offset"])
                L.fields.append((ca["name"], e, off, dict(ca)))
                off += e.size
            elif tag == "group":
                g = self._level(ch, "group", L.path)
                g.dimension = self.enc_of_type(ca.get("dimensionType", "groupSizeEncoding"))
                L.groups.append(g)
            elif tag == "data":
                L.data.append((ca["name"], self.enc_of_type(ca["type"]), dict(ca)))
        L.computed_block_length = off
        if "blockLength" in a:
            L.explicit_block_length = int(a["blockLength"])
        L.block_length = max(off, L.explicit_block_length or 0)
        return L

    # ------------------------------------------------------------------ helpers
    def walk_levels(self):
        """all levels (messages and groups at any depth), with their message"""
        out = []

        def rec(L, msg):
            out.append((L, msg))
            for g in L.groups:
                rec(g, msg)

        for m in self.messages:
            rec(m, m)
        return out

    def header_member(self, enc, name):
        """(offset, prim) of a scalar member of a header/dimension/length composite"""
        e, off = enc.member(name)
        return off, e.prim


def flat(level):
    """a group level is flat when its entries have no groups or data"""
    return not level.groups and not level.data
