"""Which contract libraries serve which property."""
import importlib

LIBS = ["bitset", "scalars", "codec", "cursor", "gen_access", "groups", "arrays", "gen_more", "gen_sbc"]


import re

# quick tier (must stay well below 15 minutes on a cold, slower machine): C10, C04, C03 are unions of what other properties already run in full; keep a representative subset so that
# the per-change check stays within minutes (the thorough tier runs everything)
QUICK_SKIP = {
    "C10": [r"^codec-.*<(char|int8|int16|uint16|int32|int64|float),", r"^codec-.*\[unchecked\]", r"^cursor/.*<(uint8,le|uint64,le|double,be)>", r"cursor traversal \((dm|init)\)", r"^groups/.*<b32_n8>",
            r"\[content\]", r"^arrays/static_array_ref::.*<N=(2|3)>", r"^gen-prim_be"],
    "C04": [r"^cursor/.*<(uint8,le|uint64,le)>", r"^groups/.*<b32_n8>", r"^gen-prim_be", r"visit_children"],
    "C03": [r"^gen-prim_be", r"cursor traversal \((dm|idm)\)", r"^cursor/.*<(uint8,le|uint64,le)>", r"^groups/.*<b32_n8>"],
    "C02": [r"^gen-prim_be.*get_by_tag"],
    "C11": [r"^codec-.*<(char|int8|int16|uint16|int32|int64|float),", r"^cursor/.*<(uint8,le|uint64,le|double,be)>", r"^groups/.*<b32_n8>"],
}


def contracts_for(prop, tier):
    out = []
    mods = []
    for name in LIBS:
        m = importlib.import_module("sbv.lib." + name)
        if prop in m.SERVES:
            mods.append(m)
            out += [c for c in m.contracts(tier) if prop in c.props]
    if tier != "thorough" and prop in QUICK_SKIP:
        pats = [re.compile(p) for p in QUICK_SKIP[prop]]
        out = [c for c in out if not any(p.search(c.ident()) for p in pats)]
    return out, mods
