"""Which contract libraries serve which property."""
import importlib

LIBS = ["bitset", "scalars", "codec", "cursor", "gen_access", "groups", "arrays", "gen_more"]


def contracts_for(prop, tier):
    out = []
    mods = []
    for name in LIBS:
        m = importlib.import_module("sbv.lib." + name)
        if prop in m.SERVES:
            mods.append(m)
            out += [c for c in m.contracts(tier) if prop in c.props]
    return out, mods
