"""Build layer: cxx2c, sbeppc (from /repo's working tree), generated headers, lowered units.

Everything is keyed by content hashes of /repo's *current working tree*, so a
cache hit is still a rebuild from the current tree; products live under
/verif/.cache (never /tmp)."""
import hashlib
import json
import os
import re
import subprocess
import sys
import time

VERIF = os.path.dirname(os.path.dirname(os.path.abspath(__file__)))
REPO = os.environ.get("SBV_REPO", "/repo")
CACHE = os.path.join(VERIF, ".cache")
BUILD = os.path.join(VERIF, ".build")
SBEPP_INC = os.path.join(REPO, "sbepp", "src")
SBEPP_HPP = os.path.join(SBEPP_INC, "sbepp", "sbepp.hpp")
CXX2C_SRC = os.path.join(VERIF, "tools", "cxx2c", "cxx2c.cpp")
CXX2C = os.path.join(BUILD, "cxx2c")


class ToolError(Exception):
    """Anything that is not a verdict about the property: exit status 2."""


def sh(cmd, cwd=None, timeout=None, env=None, check=True, stdin=None):
    p = subprocess.run(cmd, cwd=cwd, timeout=timeout, env=env, stdin=stdin, stdout=subprocess.PIPE, stderr=subprocess.STDOUT, text=True, errors="replace")
    if check and p.returncode != 0:
        raise ToolError("command failed (%d): %s\n%s" % (p.returncode, " ".join(cmd) if isinstance(cmd, list) else cmd, p.stdout[-4000:]))
    return p


def file_hash(paths):
    h = hashlib.sha256()
    for p in sorted(paths):
        h.update(p.encode())
        with open(p, "rb") as f:
            h.update(f.read())
    return h.hexdigest()[:16]


def tree_files(root, exts=None):
    out = []
    for d, _, fs in os.walk(root):
        for f in fs:
            if exts is None or os.path.splitext(f)[1] in exts:
                out.append(os.path.join(d, f))
    return out


def text_hash(*parts):
    h = hashlib.sha256()
    for p in parts:
        h.update(str(p).encode())
        h.update(b"\0")
    return h.hexdigest()[:16]


def ensure_cxx2c():
    os.makedirs(BUILD, exist_ok=True)
    stamp = os.path.join(BUILD, "cxx2c.hash")
    want = file_hash([CXX2C_SRC])
    if os.path.exists(CXX2C) and os.path.exists(stamp) and open(stamp).read() == want:
        return CXX2C
    sh(["clang++", "-std=c++17", "-fno-rtti", "-O1", "-I/usr/lib/llvm-14/include", CXX2C_SRC,
        "/usr/lib/x86_64-linux-gnu/libclang-cpp.so.14", "-L/usr/lib/llvm-14/lib", "-lLLVM-14", "-o", CXX2C + ".tmp%d" % os.getpid()], timeout=600)
    os.replace(CXX2C + ".tmp%d" % os.getpid(), CXX2C)
    open(stamp, "w").write(want)
    return CXX2C


def _lock(path):
    import fcntl
    os.makedirs(os.path.dirname(path), exist_ok=True)
    f = open(path, "w")
    fcntl.flock(f, fcntl.LOCK_EX)
    return f


def ensure_sbeppc():
    """sbeppc built by g++ from /repo/sbeppc/src of the current tree (same fmt/pugixml as the baseline build)."""
    src = os.path.join(REPO, "sbeppc", "src")
    files = tree_files(src) + [SBEPP_HPP, os.path.join(REPO, "CMakeLists.txt")]
    key = file_hash(files)
    d = os.path.join(CACHE, "sbeppc-" + key)
    exe = os.path.join(d, "sbeppc")
    lk = _lock(os.path.join(CACHE, "sbeppc.lock"))
    try:
        if os.path.exists(exe):
            return exe, key
        os.makedirs(d, exist_ok=True)
        ver = "0.0.0"
        m = re.search(r"project\(\s*sbepp[^)]*VERSION\s+([0-9.]+)", open(os.path.join(REPO, "CMakeLists.txt")).read(), re.S)
        if m:
            ver = m.group(1)
        bi = open(os.path.join(src, "sbepp", "sbeppc", "build_info.cpp.in")).read().replace("@sbepp_VERSION@", ver)
        open(os.path.join(d, "build_info.cpp"), "w").write(bi)
        t0 = time.time()
        sh(["g++", "-std=c++17", "-O0", "-w", "-DFMT_SHARED", "-I" + src, "-I" + SBEPP_INC, "-isystem", "/root/miniconda/include",
            os.path.join(src, "sbepp", "sbeppc", "main.cpp"), os.path.join(d, "build_info.cpp"),
            "-Wl,-rpath,/root/miniconda/lib", "/root/miniconda/lib/libfmt.so", "/usr/lib/x86_64-linux-gnu/libpugixml.so.1.13", "-o", exe + ".tmp"], timeout=900)
        os.replace(exe + ".tmp", exe)
        sys.stderr.write("[build] sbeppc built in %.1fs\n" % (time.time() - t0))
        return exe, key
    finally:
        lk.close()


def ensure_generated(schema_xml, schema_name=None):
    """Run the current tree's sbeppc on a schema; returns include dir containing <schema_name>/..."""
    exe, key = ensure_sbeppc()
    k = text_hash(key, file_hash([schema_xml]), schema_name or "", "v2")
    d = os.path.join(CACHE, "gen-" + k)
    lk = _lock(os.path.join(CACHE, "gen-" + k + ".lock"))
    try:
        if os.path.exists(os.path.join(d, ".ok")):
            return d
        os.makedirs(d, exist_ok=True)
        cmd = [exe, "--output-dir", d]
        if schema_name:
            cmd += ["--schema-name", schema_name]
        cmd += [schema_xml]
        p = sh(cmd, check=False, timeout=120)
        if p.returncode != 0:
            raise ToolError("sbeppc rejected corpus schema %s (exit %d): %s" % (schema_xml, p.returncode, p.stdout[-2000:]))
        # g++ treats two '#pragma once' files with equal size, mtime and content as one file: the top-level headers of two schemas
        # that differ only in byte order are identical, so give every generated tree its own timestamp (native replay uses g++)
        t = 1600000000 + int(k[:7], 16)
        for root, _, files in os.walk(d):
            for fn in files:
                os.utime(os.path.join(root, fn), (t, t))
        open(os.path.join(d, ".ok"), "w").write("ok")
        return d
    finally:
        lk.close()


CFG_DEFS = {
    "checked": ["-DSBEPP_ENABLE_ASSERTS_WITH_HANDLER"],
    "unchecked": ["-DSBEPP_DISABLE_ASSERTS"],
}


class Unit:
    """One lowered translation unit: (driver, language standard, assert configuration)."""

    def __init__(self, name, driver, std="c++17", asserts="checked", incs=(), defs=()):
        self.name = name
        self.driver = driver if os.path.isabs(driver) else os.path.join(VERIF, "drivers", driver)
        self.std = std
        self.asserts = asserts
        self.incs = list(incs)
        self.defs = list(defs)
        self.dir = None
        self.names = None
        self._by_mangled = {}
        self.recs = {}

    def flags(self):
        return ["-std=" + self.std] + CFG_DEFS[self.asserts] + self.defs + ["-I" + SBEPP_INC] + ["-I" + i for i in self.incs] + ["-I" + os.path.join(VERIF, "drivers")]

    def build(self):
        cx = ensure_cxx2c()
        inc_files = [SBEPP_HPP, self.driver, cx]
        for i in self.incs:
            inc_files += tree_files(i, {".hpp", ".h"})
        inc_files += tree_files(os.path.join(VERIF, "drivers"), {".hpp", ".h"})
        key = text_hash(file_hash(inc_files), " ".join(self.flags()), "narrowing-as-gcc")
        self.dir = os.path.join(CACHE, "unit-%s-%s" % (re.sub(r"[^A-Za-z0-9_]", "_", self.name), key))
        lk = _lock(self.dir + ".lock")
        try:
            if not os.path.exists(os.path.join(self.dir, ".ok")):
                os.makedirs(self.dir, exist_ok=True)
                t0 = time.time()
                p = sh([cx, self.driver, "--roots", "sbv", "-o", os.path.join(self.dir, "lowered.c"), "--names", os.path.join(self.dir, "names.json"),
                        "--shims", os.path.join(self.dir, "shims.cpp"), "--"] + self.flags() + ["-w", "-Wno-c++11-narrowing", "-I/usr/lib/llvm-14/lib/clang/14.0.6/include"], check=False, timeout=600)
                if p.returncode != 0:
                    raise ToolError("cxx2c failed on %s [%s %s]:\n%s" % (self.driver, self.std, self.asserts, p.stdout[-6000:]))
                # the lowering must be valid C with the pinned layouts
                p = sh(["gcc", "-std=gnu11", "-fsyntax-only", "-w", "-DSBV_STEP=", os.path.join(self.dir, "lowered.c")], check=False, timeout=300)
                if p.returncode != 0:
                    raise ToolError("lowered C of %s rejected by gcc:\n%s" % (self.name, p.stdout[-6000:]))
                open(os.path.join(self.dir, ".ok"), "w").write("%.2f" % (time.time() - t0))
        finally:
            lk.close()
        self.names = json.load(open(os.path.join(self.dir, "names.json")))
        self.text = open(os.path.join(self.dir, "lowered.c")).read()
        self._by_mangled = {f["mangled"]: Fn(self, f) for f in self.names["functions"]}
        self.recs = {r["cname"]: r for r in self.names["records"]}
        return self

    # ---- lookup
    def fn(self, mangled):
        return self._by_mangled[mangled]

    def functions(self):
        return list(self._by_mangled.values())

    def find(self, qual=None, pretty=None, pred=None, body=True):
        out = []
        for f in self._by_mangled.values():
            if qual is not None and f.qual != qual:
                continue
            if pretty is not None and not re.search(pretty, f.pretty):
                continue
            if body and not f.has_body:
                continue
            if pred is not None and not pred(f):
                continue
            out.append(f)
        return out

    def one(self, **kw):
        r = self.find(**kw)
        if len(r) != 1:
            raise ToolError("function under contract not found uniquely in unit %s: %r -> %d matches %s" % (self.name, kw, len(r), [x.pretty for x in r][:5]))
        return r[0]

    def root(self, name):
        """target function a root wrapper sbv::<name> forwards to (the function actually under contract)"""
        r = [f for f in self._by_mangled.values() if f.j.get("root") and f.qual == "sbv::" + name]
        if len(r) != 1:
            raise ToolError("root sbv::%s not found in unit %s" % (name, self.name))
        return r[0]

    def target(self, name):
        r = self.root(name)
        t = r.j.get("forwards_to")
        if not t or t not in self._by_mangled:
            raise ToolError("root sbv::%s does not forward to a lowered function" % name)
        tf = self._by_mangled[t]
        tf.root = r
        return tf

    # ---- record helpers
    def rec(self, cname):
        if cname.startswith("struct "):
            cname = cname[7:]
        return self.recs[cname.strip()]

    def path_to(self, cname, qual_prefix):
        """member path from record `cname` to its (transitive) base whose qualified name starts with qual_prefix, e.g. '.__b0.__b0'"""
        r = self.rec(cname)
        if r["qual"].startswith(qual_prefix):
            return ""
        for b in r["bases"]:
            if not b["field"]:
                continue
            try:
                return "." + b["field"] + self.path_to(b["cname"], qual_prefix)
            except KeyError:
                pass
        raise KeyError(qual_prefix)

    def field(self, cname, k):
        return self.rec(cname)["fields"][k]["name"]

    def scalar_leaves(self, cname, prefix=""):
        """(path, ctype) for every non-pointer scalar leaf of a record"""
        out = []
        r = self.rec(cname)
        for b in r["bases"]:
            if b["field"]:
                out += self.scalar_leaves(b["cname"], prefix + "." + b["field"])
        for f in r["fields"]:
            ct = f["ctype"].strip()
            if "[" in ct:
                continue
            if f["rec"]:
                out += self.scalar_leaves(ct, prefix + "." + f["name"])
            elif not f["ptr"] and f["name"] != "__empty":
                out.append((prefix + "." + f["name"], ct))
        return out


class Fn:
    def __init__(self, unit, j):
        self.unit = unit
        self.j = j
        self.mangled = j["mangled"]
        self.qual = j["qual"]
        self.pretty = j["pretty"]
        self.has_body = j["has_body"]
        self.params = j["params"]
        self.ret = j["ret"]
        self.targs = j["targs"]
        self.ctargs = j["class_targs"]
        self.root = None

    @property
    def p(self):
        return [x["name"] for x in self.params]

    def __repr__(self):
        return "<Fn %s>" % self.pretty

    def where(self):
        f = self.j.get("file", "?")
        if f.startswith(REPO):
            f = f[len(REPO) + 1:]
        return "%s:%s-%s" % (f, self.j.get("line", "?"), self.j.get("end_line", "?"))
