"""Per-property check driver: runs the contracts, decides, replays, writes evidence."""
import importlib
import json
import os
import re
import shutil
import sys
import time

from .build import VERIF, REPO, CACHE, ToolError
from . import engine
from .engine import run_all, witness_from_trace, native_replay, Contract

KNOWN = os.path.join(VERIF, "known_findings.json")
PROPS = ["C01", "C02", "C03", "C04", "C05", "C06", "C10", "C11", "C12", "C13", "C14", "C15", "C16", "C17", "C18", "C19"]

TRUSTED = [
    "clang 14 front end (template instantiation, overload resolution, implicit conversions, record layout, mangling) as used by cxx2c",
    "cxx2c lowering (tools/cxx2c/cxx2c.cpp); layouts pinned by _Static_assert, lowered text accepted by gcc",
    "CBMC 6.11.0: goto-cc, goto-instrument --dfcc, cbmc and its memcpy/memmove/memchr/strlen/bswap models",
    "SAT/SMT back ends: minisat (built in), kissat, z3 4.8.12, cvc5 1.0",
    "spec/spec.h (byte-level reading of SBE encodings)",
]
ASSUMPTIONS = [
    "x86-64 little-endian host: endian::native == little in the lowered code; a big-endian host is not covered (big-endian schemas are)",
    "g++ and clang agree on ISO C++ overload resolution, promotions and layout for the instantiations lowered",
    "pointer arithmetic that leaves an object without an access is not reported (--pointer-overflow-check off: sbepp computes such pointers inside its own assertions)",
    "size_t and pointers are 64 bit; objects smaller than 2^(64-object_bits) bytes (CBMC pointer encoding)",
    "signed '<<' uses C++14(CWG1457)/C++20 semantics (computed in the unsigned type); shift distance is still checked",
    "std::is_constant_evaluated() is nondeterministic inside sbepp, false inside libstdc++",
]


# generated-code-only properties are decided per corpus schema against the XML oracle: translation validation
PROP_LEVEL = {"C17": "translation_validation", "C18": "translation_validation"}


def load_known():
    if not os.path.exists(KNOWN):
        return {"findings": [], "fixed": []}
    return json.load(open(KNOWN))


def finding_matches(fi, prop, contract_name, pr):
    if prop != fi.get("property") and prop not in fi.get("properties", []):
        return False
    if not re.search(fi.get("contract", ".*"), contract_name):
        return False
    key = pr.get("clause") or pr.get("desc", "")
    pat = fi.get("obligation", ".*")
    return re.search(pat, key) is not None or re.search(pat, pr.get("name", "")) is not None


def short(s, n=160):
    s = " ".join(str(s).split())
    return s if len(s) <= n else s[: n - 3] + "..."


def check_property(prop, tier, seed=0, replay_path=None, only=None):
    t0 = time.time()
    from .registry import contracts_for
    known = load_known()
    contracts, mods = contracts_for(prop, tier)
    if only:
        contracts = [c for c in contracts if re.search(only, c.ident())]
    if not contracts:
        raise ToolError("no contracts for " + prop)
    results = run_all(contracts, tier)
    OUT = os.environ.get("SBV_OUT", VERIF)  # scratch runs (seeded-change triage) write their evidence and replay files elsewhere
    replay_dir = os.path.join(OUT, "replay", prop)
    os.makedirs(replay_dir, exist_ok=True)
    skipped_optional = [r for r in results if r.status == "undecided" and r.c.optional]
    undecided = [r for r in results if r.status in ("undecided", "vacuous") and not (r.status == "undecided" and r.c.optional)]
    results = [r for r in results if r not in skipped_optional]
    violations = []
    known_lines = []
    n_obl = n_ok = n_bounded = n_bounded_ok = 0
    samples = []
    per = []
    functions = {}
    for r in results:
        c = r.c
        real = [p for p in r.props if not p.get("canary")]
        fails = [p for p in real if p["status"] == "FAILURE"]
        unknown = [p for p in real if p["status"] not in ("SUCCESS", "FAILURE")]
        is_bounded = c.kind.startswith("bounded")
        listed = []
        unlisted = []
        for p in fails:
            m = [fi for fi in known["findings"] if finding_matches(fi, prop, c.name, p)]
            (listed if m else unlisted).append((p, m))
        if is_bounded:
            n_bounded += len(real)
            n_bounded_ok += len(real) - len(fails) - len(unknown)
        else:
            n_obl += len(real)
            n_ok += len(real) - len(fails) - len(unknown)
        functions[c.fn.pretty] = c.fn.where()
        for rc in c.replaces:
            functions.setdefault(rc.fn.pretty, rc.fn.where())
        per.append(dict(contract=c.ident(), function=c.fn.pretty, where=c.fn.where(), config="%s/%s" % (c.unit.std, c.unit.asserts), mode=c.mode, kind=c.kind,
                        backend=r.backend, seconds=round(r.seconds, 2), status=r.status, obligations=len(real), failed=[p.get("clause") or short(p["desc"], 80) for p in fails],
                        replaced_callees=len(r.replaced), note=c.note))
        if len(samples) < 6 and r.status == "ok":
            samples.append(dict(contract=c.ident(), function=c.fn.pretty, requires=[describe_pre(x) for x in c.pre], ensures=[{"name": n, "expr": e} for n, e in c.post],
                                assigns=c.assigns, replaced=[x.fn.pretty for x in c.replaces if x.fn.mangled in r.replaced], backend=r.backend, seconds=round(r.seconds, 2),
                                cbmc_properties=len(real)))
        if listed:
            seen = set()
            for p, m in listed:
                fi = m[0]
                k = (fi.get("id"), c.name)
                if k in seen:
                    continue
                seen.add(k)
                known_lines.append("KNOWN-FINDING: property=%s %s [%s: %s]" % (prop, fi.get("what", ""), c.name, p.get("clause") or short(p["desc"], 100)))
        if unlisted and r.status == "failed":
            violations.append((r, [p for p, _ in unlisted]))
    # undecided: tool error, never a violation
    if undecided:
        for r in undecided:
            sys.stderr.write("UNDECIDED %s: %s %s\n" % (r.c.ident(), r.status, short(r.detail, 1500)))
    vio_lines = []
    for r, fails in violations:
        c = r.c
        from .build import text_hash
        rp = os.path.join(replay_dir, re.sub(r"[^A-Za-z0-9_.-]", "_", c.ident()) + "-" + text_hash(c.ident())[:6] + ".json")
        trace = None
        for p in fails:
            if p.get("trace"):
                trace = p["trace"]
                break
        vals = witness_from_trace(trace) if trace else {}
        outcome, text = ("no-trace", "")
        if trace is not None:
            outcome, text = native_replay(c, vals, r.workdir)
        doc = dict(property=prop, contract=c.ident(), function=c.fn.pretty, where=c.fn.where(), config="%s/%s" % (c.unit.std, c.unit.asserts), mode=c.mode,
                   failed_obligations=[dict(name=p["name"], clause=p.get("clause"), description=p["desc"], expr=p.get("expr")) for p in fails],
                   backend=r.backend, witness=vals, inputs={k: v.get("data") for k, v in vals.items()}, inputs_binary={k: v.get("binary") for k, v in vals.items() if v.get("binary")},
                   native_replay=dict(outcome=outcome, output=text), verifier_output=[dict(name=p["name"], status=p["status"], description=p["desc"]) for p in r.props if p["status"] != "SUCCESS" and not p.get("canary")],
                   replay_source=os.path.join(r.workdir, "replay.c"), tier=tier)
        # keep replay program next to the replay file
        try:
            if os.path.exists(os.path.join(r.workdir, "replay.c")):
                shutil.copy(os.path.join(r.workdir, "replay.c"), rp[:-5] + ".c")
                doc["replay_source"] = rp[:-5] + ".c"
        except OSError:
            pass
        json.dump(doc, open(rp, "w"), indent=1)
        what = "; ".join(sorted({p.get("clause") or short(p["desc"], 70) for p in fails}))
        line = "VIOLATION property=%s replay=%s" % (prop, rp)
        sys.stderr.write("  violated: %s :: %s (%s)\n" % (c.ident(), what, outcome))
        if outcome != "reproduced":
            line += " no-failing-input-found"
        vio_lines.append(line)
    wall = time.time() - t0
    schemas = sorted({re.match(r"gen-(.+?)-c\+\+", r.c.unit.name).group(1) for r in results if re.match(r"gen-(.+?)-c\+\+", r.c.unit.name)})
    ev = dict(
        property_id=prop, tier=tier, seed=seed, level=PROP_LEVEL.get(prop, "proof"),
        coverage=dict(
            # a proof-level record claims only what was discharged; obligations that fail because of a listed known finding
            # (and the ones CBMC leaves undecided behind them) are excluded from the claim and counted separately
            obligations=n_ok if (not vio_lines and not undecided) else n_obl, discharged=n_ok,
            obligations_generated=n_obl, obligations_not_discharged_known_findings=(n_obl - n_ok) if not vio_lines else 0,
            bounded_obligations=n_bounded, bounded_discharged=n_bounded_ok,
            checker_cmd="goto-cc h.c; goto-instrument --dfcc main --enforce-contract <f> [--replace-call-with-contract <g>]* [--apply-loop-contracts]; cbmc %s [--unwind N --unwinding-assertions] (portfolio: minisat, kissat, z3, cvc5)" % " ".join(engine.CHECK_FLAGS),
            trusted_base=TRUSTED + [t for m in mods for t in getattr(m, "TRUSTED", [])],
            programs=len(schemas), corpus_schemas=schemas, disagreements_checked=sum(len(r.c.post) for r in results if r.status == "ok"),
            contracts=len(results), contracts_ok=sum(1 for r in results if r.status == "ok"),
            functions_under_contract=functions,
            backends={b: sum(1 for r in results if r.backend == b) for b in {r.backend for r in results if r.backend}},
            solver_seconds=round(sum(r.seconds for r in results), 1),
            per_contract=per, samples=samples or [dict(note="no contract succeeded")],
            known_findings_reported=known_lines,
            undecided=[dict(contract=r.c.ident(), why=short(r.detail, 300)) for r in undecided],
            best_effort_contracts_without_verdict=[dict(contract=r.c.ident(), why=short(r.detail, 200)) for r in skipped_optional],
            rule="one obligation = one CBMC property (ensures clause, assigns-clause check, pointer/bounds/overflow/shift check, loop-invariant base/step, unwinding assertion) of one contract enforced by DFCC on the lowered real code; bounded obligations are counted separately and never under 'discharged'",
            explanation=" ".join(getattr(m, "EXPLANATION", "") for m in mods).strip(),
        ),
        assumptions=ASSUMPTIONS + [t for m in mods for t in getattr(m, "ASSUMPTIONS", [])],
        wall_s=round(wall, 1), violations=len(vio_lines),
    )
    os.makedirs(os.path.join(OUT, "evidence"), exist_ok=True)
    json.dump(ev, open(os.path.join(OUT, "evidence", prop + ".json"), "w"), indent=1)
    for l in known_lines:
        print(l)
    for l in vio_lines:
        print(l)
    print("%s %s: %d contracts, %d/%d obligations discharged (+%d/%d bounded), %d known findings, %d violations, %d undecided, %.1fs" % (
        prop, tier, len(results), n_ok, n_obl, n_bounded_ok, n_bounded, len(known_lines), len(vio_lines), len(undecided), wall))
    if vio_lines:
        return 1
    if undecided:
        return 2
    return 0


def describe_pre(x):
    n = type(x).__name__
    d = dict(x.__dict__)
    return {"kind": n, **{k: str(v) for k, v in d.items()}}


def cleanup_work():
    d = os.path.join(engine.WORK, "%d" % os.getpid())
    shutil.rmtree(d, ignore_errors=True)


def main(argv):
    import argparse
    ap = argparse.ArgumentParser()
    ap.add_argument("prop")
    ap.add_argument("--tier", default=os.environ.get("VERIF_TIER", "quick"))
    ap.add_argument("--replay")
    ap.add_argument("--only")
    ap.add_argument("--keep", action="store_true")
    a = ap.parse_args(argv)
    seed = int(os.environ.get("VERIF_SEED", "0") or 0)
    try:
        if a.replay:
            from .replay import replay_file
            rc = replay_file(a.replay)
        else:
            rc = check_property(a.prop, a.tier, seed, only=a.only)
    except ToolError as e:
        sys.stderr.write("TOOL-ERROR %s: %s\n" % (a.prop, e))
        rc = 2
    finally:
        if not a.keep:
            cleanup_work()
    return rc
