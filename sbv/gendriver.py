"""Generates, from the XML (through the oracle), a C++ driver that touches the generated accessors of every level.

The driver only *calls* the real generated code; what each aggregated root returns is compared with the oracle by contracts."""
import os
import re

from .oracle import Schema, Enc, Level, flat
from .sbe import PRIMS

CPP_PRIM = {"char": "char", "int8": "std::int8_t", "uint8": "std::uint8_t", "int16": "std::int16_t", "uint16": "std::uint16_t", "int32": "std::int32_t",
            "uint32": "std::uint32_t", "int64": "std::int64_t", "uint64": "std::uint64_t", "float": "float", "double": "double"}


class LevelInfo:
    """one view type whose members are exercised: message, group entry or composite"""

    def __init__(self, ident, cpp_type, kind, members, origin):
        self.ident = ident          # C identifier fragment
        self.cpp = cpp_type         # C++ type alias name
        self.kind = kind            # message | entry | composite
        self.members = members      # list of dicts: name, enc, offset (relative to level start), mkind (field|group|data|member)
        self.origin = origin        # oracle Level or Enc


def ident(*parts):
    return re.sub(r"[^A-Za-z0-9]", "_", "_".join(parts))


class Gen:
    def __init__(self, schema: Schema, schema_name=None):
        self.s = schema
        self.pkg = schema_name or schema.package
        self.lines = []
        self.levels = []
        self.aliases = []
        self.seen_composites = {}

    def uniq(self, x):
        """level identifiers are paths joined by '_': schema names containing '_' can collide; disambiguate deterministically"""
        used = self.__dict__.setdefault("_used", set())
        y, k = x, 1
        while y in used:
            k += 1
            y = "%s_x%d" % (x, k)
        used.add(y)
        return y

    # ---- type aliases
    def alias(self, name, expr):
        self.aliases.append("using %s = %s; static_assert(sizeof(%s) > 0, \"complete\");" % (name, expr, name))
        return name

    def collect(self):
        s = self.s
        for m in s.messages:
            mid = self.uniq(ident(m.name))
            mt = self.alias("M_" + mid, "::%s::messages::%s<char>" % (self.pkg, m.name))
            self.level_of(m, mt, mid, "message")
        # public composites not reached through a message (header, dimensions, length encodings and unused ones)
        for tname, node in s.types.items():
            if node.tag.split("}")[-1] == "composite":
                e = s.enc_of_type(tname)
                ct = self.alias("C_" + ident(tname), "::%s::types::%s<char>" % (self.pkg, tname))
                self.composite_level(e, ct, "T_" + ident(tname))
        return self

    def level_of(self, L: Level, cpp, idn, kind):
        members = []
        for n, e, o, a in L.fields:
            members.append(dict(name=n, enc=e, offset=o, mkind="field", attrs=a))
            if e.kind == "composite" and not e.constant:
                ct = self.alias("C_%s_%s" % (idn, ident(n)), "decltype(std::declval<%s>().%s())" % (cpp, n))
                self.composite_level(e, ct, "%s_%s" % (idn, ident(n)))
        for g in L.groups:
            gid = self.uniq("%s_%s" % (idn, ident(g.name)))
            gt = self.alias("G_" + gid, "decltype(std::declval<%s>().%s())" % (cpp, g.name))
            et = self.alias("E_" + gid, "%s::value_type" % gt)
            members.append(dict(name=g.name, enc=None, level=g, offset=None, mkind="group", cpp=gt, entry_cpp=et, gid=gid))
            self.level_of(g, et, gid, "entry")
        for n, e, a in L.data:
            dt = self.alias("D_%s_%s" % (idn, ident(n)), "decltype(std::declval<%s>().%s())" % (cpp, n))
            members.append(dict(name=n, enc=e, offset=None, mkind="data", cpp=dt, attrs=a))
        li = LevelInfo(idn, cpp, kind, members, L)
        self.levels.append(li)
        return li

    def composite_level(self, e: Enc, cpp, idn):
        members = []
        for n, me, o in e.members:
            members.append(dict(name=n, enc=me, offset=o, mkind="member"))
            if me.kind == "composite" and not me.constant:
                ct = self.alias("C_%s_%s" % (idn, ident(n)), "decltype(std::declval<%s>().%s())" % (cpp, n))
                self.composite_level(me, ct, "%s_%s" % (idn, ident(n)))
        li = LevelInfo(idn, cpp, "composite", members, e)
        self.levels.append(li)
        return li

    # ---- code
    @staticmethod
    def wire_members(li):
        """members that occupy wire space and have accessors, in schema order, with an index"""
        out = []
        for i, m in enumerate(li.members):
            if m["mkind"] in ("field", "member") and m["enc"].constant:
                continue
            out.append((i, m))
        return out

    @staticmethod
    def get_members(li):
        """members probed by r_<id>_get: everything up to and including the first nested group (members behind a nested group
        need its entry loop to be located by random access; they are reached through cursors in the traversal roots)"""
        out = []
        for i, m in Gen.wire_members(li):
            out.append((i, m))
            if m["mkind"] == "group" and not flat(m["level"]):
                break
        return out

    def emit(self):
        o = []
        o.append("// GENERATED by sbv/gendriver.py from %s -- do not edit" % os.path.basename(self.s.path))
        o.append("#include <sbepp/sbepp.hpp>")
        o.append("#include <%s/%s.hpp>" % (self.pkg, self.pkg))
        o.append('#include "sbv_gen.hpp"')
        o.append('#include "sbv_scalar_roots.hpp"')
        o.append("namespace sbv {")
        o += self.aliases
        for li in self.levels:
            wm = self.get_members(li)
            # ---- get_all
            o.append("struct GV_%s {" % li.ident)
            for i, m in wm:
                e = m["enc"]
                if m["mkind"] in ("group", "data") or e.kind in ("array", "composite"):
                    o.append("  vw v%d;" % i)
                else:
                    o.append("  std::uint64_t v%d;" % i)
            o.append("  char pad_;")
            o.append("};")
            o.append("GV_%s r_%s_get(const %s& v) {" % (li.ident, li.ident, li.cpp))
            o.append("  GV_%s r{};" % li.ident)
            for i, m in wm:
                e = m["enc"]
                if m["mkind"] in ("group", "data") or e.kind in ("array", "composite"):
                    o.append("  r.v%d = view_of(v.%s());" % (i, m["name"]))
                else:
                    o.append("  r.v%d = probe(v.%s(), 0);" % (i, m["name"]))
            o.append("  return r;")
            o.append("}")
            # ---- set_all (scalar-like members only)
            sm = [(i, m) for i, m in self.wire_members(li) if m["mkind"] in ("field", "member") and m["enc"].kind in ("scalar", "enum", "set")]
            if sm:
                o.append("struct SV_%s {" % li.ident)
                for i, m in sm:
                    o.append("  %s v%d;" % (CPP_PRIM[m["enc"].prim], i))
                o.append("};")
                o.append("void r_%s_set(const %s& v, SV_%s x) {" % (li.ident, li.cpp, li.ident))
                for i, m in sm:
                    o.append("  v.%s(make<decltype(v.%s())>(x.v%d, 0));" % (m["name"], m["name"], i))
                o.append("}")
        self.emit_scalar_types(o)
        self.emit_cursor(o)
        self.emit_sizes_and_fill(o)
        self.emit_traits(o)
        self.emit_type_traits(o)
        self.emit_visit(o)
        self.emit_sbc(o)
        self.emit_sets_enums(o)
        self.emit_bytag(o)
        self.emit_constness(o)
        o.append("} // namespace sbv")
        return "\n".join(o) + "\n"

    # ------------------------------------------------------------------ schema-defined scalar wrapper types (C16)
    def emit_scalar_types(self, o):
        self.scalar_types = []  # (root id, Enc)
        for tname, node in self.s.types.items():
            if node.tag.split("}")[-1] != "type":
                continue
            e = self.s.enc_of_type(tname)
            if e.kind != "scalar" or e.presence == "constant":
                continue
            rid = "T_" + ident(tname)
            if e.presence == "optional":
                o.append("SBV_OPT_T(%s, ::%s::types::%s)" % (rid, self.pkg, tname))
            else:
                o.append("SBV_REQ_T(%s, ::%s::types::%s)" % (rid, self.pkg, tname))
            self.scalar_types.append((rid, e))

    # ------------------------------------------------------------------ cursor traversals
    @staticmethod
    def cursor_members(li):
        """members a loop-free cursor traversal can cover: fields, then dynamic members up to (excluding) the first nested group"""
        out = []
        for i, m in Gen.wire_members(li):
            if m["mkind"] == "group" and not flat(m["level"]):
                break
            out.append((i, m))
        return out

    def emit_cursor(self, o):
        self.cursor_roots = {}
        for li in self.levels:
            if li.kind == "composite":
                continue
            cm = self.cursor_members(li)
            if not cm:
                continue
            o.append("struct CV_%s {" % li.ident)
            for i, m in cm:
                e = m["enc"]
                if m["mkind"] in ("group", "data") or e.kind in ("array", "composite"):
                    o.append("  vw v%d;" % i)
                else:
                    o.append("  std::uint64_t v%d;" % i)
                o.append("  const char* p%d;" % i)
            o.append("};")
            init = "auto c = sbepp::init_cursor(v);" if li.kind == "message" else "sbepp::cursor<char> c; c.pointer() = sbepp::addressof(v);"

            def body(kind):
                L = ["  CV_%s r{};" % li.ident, "  " + init]
                for i, m in cm:
                    e = m["enc"]
                    nm = m["name"]
                    isview = m["mkind"] in ("group", "data") or e.kind in ("array", "composite")
                    pr = (lambda x: "view_of(%s)" % x) if isview else (lambda x: "probe(%s, 0)" % x)
                    if m["mkind"] == "group":
                        # a flat group: look at it without moving, then skip all its entries
                        L.append("  r.v%d = view_of(v.%s(sbepp::cursor_ops::dont_move(c))); v.%s(sbepp::cursor_ops::skip(c));" % (i, nm, nm))
                    elif kind == "plain":
                        L.append("  r.v%d = %s;" % (i, pr("v.%s(c)" % nm)))
                    elif kind == "dm":
                        L.append("  r.v%d = %s; v.%s(sbepp::cursor_ops::skip(c));" % (i, pr("v.%s(sbepp::cursor_ops::dont_move(c))" % nm), nm))
                    elif kind == "init":
                        L.append("  { sbepp::cursor<char> c2; r.v%d = %s; c = c2; }" % (i, pr("v.%s(sbepp::cursor_ops::init(c2))" % nm)))
                    elif kind == "idm":
                        L.append("  { sbepp::cursor<char> c2; r.v%d = %s; c = c2; r.v%d = %s; }" % (i, pr("v.%s(sbepp::cursor_ops::init_dont_move(c2))" % nm), i, pr("v.%s(c)" % nm)))
                    L.append("  r.p%d = c.pointer();" % i)
                L.append("  return r;")
                return L

            for kind in ("plain", "dm", "init", "idm"):
                o.append("CV_%s r_%s_cur_%s(const %s& v) {" % (li.ident, li.ident, kind, li.cpp))
                o += body(kind)
                o.append("}")
            self.cursor_roots[li.ident] = cm

    # ------------------------------------------------------------------ sizes and header fillers
    def emit_sizes_and_fill(self, o):
        self.size_roots = []
        self.fill_roots = []
        for li in self.levels:
            if li.kind == "composite":
                o.append("std::size_t r_%s_size(const %s& v) { return sbepp::size_bytes(v); }" % (li.ident, li.cpp))
                self.size_roots.append(li.ident)
                continue
            L = li.origin
            # levels whose size needs no nested-group loop
            if all(flat(g) for g in L.groups):
                o.append("std::size_t r_%s_size(const %s& v) { return sbepp::size_bytes(v); }" % (li.ident, li.cpp))
                self.size_roots.append(li.ident)
            if li.kind == "message":
                o.append("vw r_%s_fill(const %s& v) { return view_of(sbepp::fill_message_header(v)); }" % (li.ident, li.cpp))
                self.fill_roots.append(("message", li.ident, L, None))
            for m in li.members:
                if m["mkind"] == "group":
                    gid = m["gid"]
                    o.append("vw r_%s_gfill(const %s& g, %s::size_type n) { return view_of(sbepp::fill_group_header(g, n)); }" % (gid, m["cpp"], m["cpp"]))
                    self.fill_roots.append(("group", gid, m["level"], m["cpp"]))

    # ------------------------------------------------------------------ visiting (C19)
    def emit_visit(self, o):
        self.visit_roots = []
        self.cvisit_roots = []
        for li in self.levels:
            if li.kind == "composite":
                wm = self.wire_members(li)
                if wm and len(wm) <= 30:
                    o.append("VisitResult r_%s_cvisit(const %s& v, unsigned long stop_at) {" % (li.ident, li.cpp))
                    o.append("  VisitResult r{}; r.v.stop_at = stop_at;")
                    o.append("  r.stopped = v(sbepp::detail::visit_children_tag{}, r.v);")
                    o.append("  return r;")
                    o.append("}")
                    self.cvisit_roots.append(li.ident)
                continue
            L = li.origin
            if not all(flat(g) for g in L.groups):
                continue  # the recording visitor consumes groups without iterating: flat groups only
            wm = self.wire_members(li)
            if not wm or len(wm) > 30:
                continue
            init = "auto c = sbepp::init_cursor(v);" if li.kind == "message" else "sbepp::cursor<char> c; c.pointer() = sbepp::addressof(v);"
            o.append("VisitResult r_%s_visit(const %s& v, unsigned long stop_at) {" % (li.ident, li.cpp))
            o.append("  VisitResult r{}; r.v.stop_at = stop_at; %s" % init)
            o.append("  r.stopped = v(sbepp::detail::visit_children_tag{}, r.v, c);")
            o.append("  r.cursor = c.pointer();")
            o.append("  return r;")
            o.append("}")
            self.visit_roots.append(li.ident)

    # ------------------------------------------------------------------ sets and enums (C15, C19)
    def emit_sets_enums(self, o):
        self.set_roots = []
        self.enum_roots = []
        pkg = self.pkg
        for tname, node in self.s.types.items():
            kind = node.tag.split("}")[-1]
            e = self.s.enc_of_type(tname)
            T = "::%s::types::%s" % (pkg, tname)
            TG = "::%s::schema::types::%s" % (pkg, tname)
            idn = ident(tname)
            if kind == "set" and e.values:
                k = len(e.values)
                o.append("struct SG_%s { %s };" % (idn, " ".join("bool c%d;" % i for i in range(k))))
                o.append("SG_%s r_set_%s_get(%s s) { SG_%s r{}; %s return r; }" % (idn, idn, T, idn, " ".join("r.c%d = s.%s();" % (i, v[0]) for i, v in enumerate(e.values))))
                o.append("SG_%s r_set_%s_get_bytag(%s s) { SG_%s r{}; %s return r; }" % (idn, idn, T, idn, " ".join("r.c%d = sbepp::get_by_tag<%s::%s>(s);" % (i, TG, v[0]) for i, v in enumerate(e.values))))
                o.append("std::uint64_t r_set_%s_set(%s s, SG_%s x) { %s return bits(*s); }" % (idn, T, idn, " ".join("s.%s(x.c%d);" % (v[0], i) for i, v in enumerate(e.values))))
                o.append("std::uint64_t r_set_%s_set_bytag(%s s, SG_%s x) { %s return bits(*s); }" % (idn, T, idn, " ".join("sbepp::set_by_tag<%s::%s>(s, x.c%d);" % (TG, v[0], i) for i, v in enumerate(e.values))))
                o.append("SetVisitor r_set_%s_visit(%s s) { SetVisitor v{}; sbepp::visit(s, v); return v; }" % (idn, T))
                self.set_roots.append((idn, e))
            elif kind == "enum":
                o.append("EnumVisitor r_enum_%s_visit(%s e) { EnumVisitor v{}; sbepp::visit(e, v); return v; }" % (idn, T))
                self.enum_roots.append((idn, e))

    # ------------------------------------------------------------------ access by tag == named access (C19)
    def emit_bytag(self, o):
        self.bytag_roots = []
        for li in self.levels:
            if li.kind == "composite":
                continue
            L = li.origin
            tag = "::%s::schema::messages::%s" % (self.pkg, "::".join(L.path))
            wm = [(i, m) for i, m in self.get_members(li) if m["mkind"] == "field"]
            if not wm:
                continue
            o.append("GV_%s r_%s_get_bytag(const %s& v) {" % (li.ident, li.ident, li.cpp))
            o.append("  GV_%s r{};" % li.ident)
            for i, m in wm:
                e = m["enc"]
                acc = "sbepp::get_by_tag<%s::%s>(v)" % (tag, m["name"])
                if e.kind in ("array", "composite"):
                    o.append("  r.v%d = view_of(%s);" % (i, acc))
                else:
                    o.append("  r.v%d = probe(%s, 0);" % (i, acc))
            o.append("  return r;")
            o.append("}")
            self.bytag_roots.append(li.ident)
            # set_by_tag of every scalar-like field (same argument struct and same contract as r_<L>_set)
            sm = [(i, m) for i, m in self.wire_members(li) if m["mkind"] == "field" and m["enc"].kind in ("scalar", "enum", "set")]
            if sm:
                o.append("void r_%s_set_bytag(const %s& v, SV_%s x) {" % (li.ident, li.cpp, li.ident))
                for i, m in sm:
                    o.append("  sbepp::set_by_tag<%s::%s>(v, make<decltype(v.%s())>(x.v%d, 0));" % (tag, m["name"], m["name"], i))
                o.append("}")
                self.set_bytag_roots = getattr(self, "set_bytag_roots", []) + [li.ident]

    # ------------------------------------------------------------------ const-correctness visible to overload resolution (C11)
    def emit_constness(self, o):
        """roots returning booleans computed by the compiler: is a mutator callable on / with a const byte type?
        (expression-validity detection sees enable_if-style rejection, which is how sbepp rejects; a hard error inside a body would not be seen)"""
        self.const_roots = []
        # parallel aliases for const-byte views
        for a in self.aliases:
            m = re.match(r"using (\w+) = (.*?); static_assert", a)
            name, expr = m.group(1), m.group(2)
            cexpr = re.sub(r"<char>", "<const char>", expr)
            cexpr = re.sub(r"std::declval<(\w+)>\(\)", lambda mm: "std::declval<%s_k>()" % mm.group(1), cexpr)
            cexpr = re.sub(r"\b([GE]_\w+)::value_type", lambda mm: "%s_k::value_type" % mm.group(1), cexpr)
            o.append("using %s_k = %s;" % (name, cexpr))
        o.append("using CC = sbepp::cursor<const char>; using MC = sbepp::cursor<char>;")
        o.append("using W_init = decltype(sbepp::cursor_ops::init(std::declval<CC&>())); using W_dm = decltype(sbepp::cursor_ops::dont_move(std::declval<CC&>())); using W_idm = decltype(sbepp::cursor_ops::init_dont_move(std::declval<CC&>()));")
        seen = set()
        for li in self.levels:
            if li.kind == "composite":
                continue
            setters = [(i, m) for i, m in self.wire_members(li) if m["mkind"] == "field" and m["enc"].kind in ("scalar", "enum", "set")]
            for i, m in setters:
                if m["name"] not in seen:
                    seen.add(m["name"])
                    o.append("template<typename V, typename... A> auto sbv_can_%s(int) -> decltype(std::declval<V>().%s(std::declval<A>()...), std::true_type{});" % (m["name"], m["name"]))
                    o.append("template<typename V, typename... A> std::false_type sbv_can_%s(long);" % m["name"])
            if not setters:
                continue
            T, K = li.cpp, li.cpp + "_k"
            o.append("struct KC_%s { %s char pad_; };" % (li.ident, " ".join("bool n%d[6]; bool p%d[2];" % (i, i) for i, m in setters)))
            o.append("KC_%s r_%s_constness() {" % (li.ident, li.ident))
            o.append("  KC_%s r{};" % li.ident)
            for i, m in setters:
                f = m["name"]
                VT = "decltype(std::declval<%s>().%s())" % (T, f)
                neg = ["decltype(sbv_can_%s<%s, %s>(0))::value" % (f, K, VT), "decltype(sbv_can_%s<%s, %s, CC&>(0))::value" % (f, T, VT), "decltype(sbv_can_%s<%s, %s, W_init>(0))::value" % (f, T, VT),
                       "decltype(sbv_can_%s<%s, %s, W_dm>(0))::value" % (f, T, VT), "decltype(sbv_can_%s<%s, %s, W_idm>(0))::value" % (f, T, VT), "decltype(sbv_can_%s<%s, %s, MC&>(0))::value" % (f, K, VT)]
                pos = ["decltype(sbv_can_%s<%s, %s>(0))::value" % (f, T, VT), "decltype(sbv_can_%s<%s, %s, MC&>(0))::value" % (f, T, VT)]
                for k, e in enumerate(neg):
                    o.append("  r.n%d[%d] = %s;" % (i, k, e))
                for k, e in enumerate(pos):
                    o.append("  r.p%d[%d] = %s;" % (i, k, e))
            o.append("  return r;")
            o.append("}")
            self.const_roots.append((li.ident, setters))
        # element access of array / <data> references reached through a const-byte view must be const
        self.constelem_roots = []
        for li in self.levels:
            arrs = [(i, m) for i, m in self.get_members(li) if (m["mkind"] == "field" and m["enc"].kind == "array" and not m["enc"].constant) or m["mkind"] == "data"]
            if li.kind == "composite":
                arrs = [(i, m) for i, m in self.wire_members(li) if m["enc"].kind == "array"]
            if not arrs:
                continue
            o.append("struct KE_%s { %s char pad_; };" % (li.ident, " ".join("bool c%d; bool m%d;" % (i, i) for i, m in arrs)))
            o.append("KE_%s r_%s_constelems() {" % (li.ident, li.ident))
            o.append("  KE_%s r{};" % li.ident)
            for i, m in arrs:
                for fld, T in (("c", li.cpp + "_k"), ("m", li.cpp)):
                    o.append("  r.%s%d = std::is_const<typename std::remove_pointer<decltype(std::declval<%s>().%s().data())>::type>::value;" % (fld, i, T, m["name"]))
            o.append("  return r;")
            o.append("}")
            self.constelem_roots.append((li.ident, arrs))
        # views returned by cursor accessors of a MUTABLE view through a CONST cursor (plain and the three wrappers) must be const-byte views:
        # code 0 = expression not valid, 1 = valid and the returned view is mutable (forbidden), 2 = valid and const, 3 = valid, byte type unknown
        self.constview_roots = []
        seenv = set()
        for li in self.levels:
            if li.kind == "composite":
                continue
            vm = [(i, m) for i, m in self.wire_members(li) if m["mkind"] in ("group", "data")]
            if not vm:
                continue
            for i, m in vm:
                if m["name"] not in seenv:
                    seenv.add(m["name"])
                    o.append("template<typename V, typename A> auto sbv_cv_%s(int) -> decltype(sbv::view_code<decltype(std::declval<V>().%s(std::declval<A>()))>(0));" % (m["name"], m["name"]))
                    o.append("template<typename V, typename A> std::integral_constant<int, 0> sbv_cv_%s(long);" % m["name"])
            o.append("struct KW_%s { %s char pad_; };" % (li.ident, " ".join("unsigned char c%d[4]; unsigned char m%d;" % (i, i) for i, m in vm)))
            o.append("KW_%s r_%s_constviews() {" % (li.ident, li.ident))
            o.append("  KW_%s r{};" % li.ident)
            for i, m in vm:
                for k, W in enumerate(["CC&", "W_init", "W_dm", "W_idm"]):
                    o.append("  r.c%d[%d] = decltype(sbv_cv_%s<%s, %s>(0))::value;" % (i, k, m["name"], li.cpp, W))
                o.append("  r.m%d = decltype(sbv_cv_%s<%s, MC&>(0))::value;" % (i, m["name"], li.cpp))
            o.append("  return r;")
            o.append("}")
            self.constview_roots.append((li.ident, vm))
        # view / cursor conversions: only towards more-const byte types
        o.append("struct KV { bool to_const[%d]; bool from_const[%d]; bool cur_to_const; bool cur_from_const; };" % (max(1, len(self.levels)), max(1, len(self.levels))))
        o.append("KV r_conversions() {")
        o.append("  KV r{};")
        for k, li in enumerate(self.levels):
            o.append("  r.to_const[%d] = std::is_convertible<%s, %s_k>::value; r.from_const[%d] = std::is_convertible<%s_k, %s>::value;" % (k, li.cpp, li.cpp, k, li.cpp, li.cpp))
        o.append("  r.cur_to_const = std::is_convertible<MC, CC>::value; r.cur_from_const = std::is_convertible<CC, MC>::value;")
        o.append("  return r;")
        o.append("}")

    # ------------------------------------------------------------------ size_bytes_checked (C06)
    def emit_sbc(self, o):
        self.sbc_roots = []
        for li in self.levels:
            if li.kind != "message":
                continue
            L = li.origin
            if not all(flat(g) for g in L.groups):
                # nested groups: decided modularly (contracts on the visitor's on_group / on_entry instantiations, lib/gen_sbc.py)
                o.append("sbepp::size_bytes_checked_result r_%s_sbc(const %s& v, std::size_t n) { return sbepp::size_bytes_checked(v, n); }" % (li.ident, li.cpp))
                self.sbc_nested_roots = getattr(self, "sbc_nested_roots", []) + [li.ident]
                continue
            o.append("sbepp::size_bytes_checked_result r_%s_sbc(const %s& v, std::size_t n) { return sbepp::size_bytes_checked(v, n); }" % (li.ident, li.cpp))
            self.sbc_roots.append(li.ident)

    # ------------------------------------------------------------------ traits
    def emit_traits(self, o):
        """roots returning trait values; self.trait_roots: [(root name, [(field name, kind, expected)])]"""
        self.trait_roots = []
        s = self.s
        pkg = self.pkg

        def dep(attrs):
            # present with the schema's value, absent (all-ones sentinel of sbv::dep_of) otherwise
            return [("dep_of<T>(0)", "u64", int(attrs["deprecated"]) if attrs and "deprecated" in attrs else (1 << 64) - 1)]

        trnames = set()

        def uq(name):
            base, k = name, 1
            while name in trnames:
                k += 1
                name = "%s_x%d" % (base, k)
            trnames.add(name)
            return name

        def root(name, traits_expr, items):
            name = uq(name)
            # items: (member fn, kind, expected) kind in str|u64|i64|f32|f64|char
            fields = []
            o.append("struct TR_%s {" % name)
            for k, (fn, kind, exp) in enumerate(items):
                ct = {"str": "const char*", "u64": "std::uint64_t", "i64": "std::int64_t", "f32": "float", "f64": "double", "char": "char"}[kind]
                o.append("  %s t%d;" % (ct, k))
            o.append("  char pad_;")
            o.append("};")
            o.append("TR_%s r_tr_%s() {" % (name, name))
            o.append("  using T = %s;" % traits_expr)
            o.append("  TR_%s r{};" % name)
            for k, (fn, kind, exp) in enumerate(items):
                if kind in ("u64", "i64"):
                    o.append("  r.t%d = static_cast<%s>(%s);" % (k, "std::uint64_t" if kind == "u64" else "std::int64_t", fn))
                else:
                    o.append("  r.t%d = %s;" % (k, fn))
            o.append("  return r;")
            o.append("}")
            self.trait_roots.append((name, items))

        PRES = {"required": 0, "optional": 1, "constant": 2}
        root("schema", "sbepp::schema_traits<::%s::schema>" % pkg,
             [("T::package()", "str", s.package), ("T::id()", "u64", s.id), ("T::version()", "u64", s.version), ("T::semantic_version()", "str", s.semantic_version),
              ("T::description()", "str", s.description), ("(T::byte_order() == sbepp::endian::big ? 1 : 0)", "u64", 1 if s.big_endian else 0)])
        for L, msg in s.walk_levels():
            tag = "::%s::schema::messages::%s" % (pkg, "::".join(L.path))
            idn = ident(*L.path)
            a = L.attrs
            if L.kind == "message":
                items = [("T::name()", "str", L.name), ("T::description()", "str", a.get("description", "")), ("T::id()", "u64", int(a["id"])), ("T::block_length()", "u64", L.block_length),
                         ("T::semantic_type()", "str", a.get("semanticType", "")), ("T::since_version()", "u64", int(a.get("sinceVersion", "0")))]
                if not L.groups and not L.data:
                    items.append(("T::size_bytes()", "u64", s.header.size + L.block_length))
                root("msg_" + idn, "sbepp::message_traits<%s>" % tag, items + dep(a))
            else:
                items = [("T::name()", "str", L.name), ("T::description()", "str", a.get("description", "")), ("T::id()", "u64", int(a["id"])), ("T::block_length()", "u64", L.block_length),
                         ("T::semantic_type()", "str", a.get("semanticType", "")), ("T::since_version()", "u64", int(a.get("sinceVersion", "0")))]
                root("grp_" + idn, "sbepp::group_traits<%s>" % tag, items + dep(a))
            for n, e, off, fa in L.fields:
                pres = e.presence
                items = [("T::name()", "str", n), ("T::id()", "u64", int(fa["id"])), ("T::description()", "str", fa.get("description", "")), ("static_cast<int>(T::presence())", "u64", PRES[pres]),
                         ("T::since_version()", "u64", int(fa.get("sinceVersion", "0")))]
                if pres != "constant":
                    items.append(("T::offset()", "u64", off))  # a constant occupies no space: its offset is not defined by the schema
                root("fld_%s_%s" % (idn, ident(n)), "sbepp::field_traits<%s::%s>" % (tag, n), items + dep(fa))
            for n, e, da in L.data:
                items = [("T::name()", "str", n), ("T::id()", "u64", int(da["id"])), ("T::description()", "str", da.get("description", "")), ("T::since_version()", "u64", int(da.get("sinceVersion", "0")))]
                root("dat_%s_%s" % (idn, ident(n)), "sbepp::data_traits<%s::%s>" % (tag, n), items + dep(da))
        # parametric trait sizes: size_bytes(counts in pre-order..., total_data_size)
        self.psize_roots = []

        def groups_preorder(L):
            out = []
            for g in L.groups:
                out.append(g)
                out += groups_preorder(g)
            return out

        for L, msg in s.walk_levels():
            if not L.groups and not (L.kind == "group"):
                if not L.data:
                    continue
            tag = "::%s::schema::messages::%s" % (pkg, "::".join(L.path))
            idn = uq("sz_" + ident(*L.path))[3:]
            gl = ([L] if L.kind == "group" else []) + groups_preorder(L)
            has_data = bool(L.data) or any(g.data for g in groups_preorder(L))
            params = []
            for k, g in enumerate(gl):
                noff, nprim = s.header_member(g.dimension, "numInGroup")
                params.append(("n%d" % k, CPP_PRIM[nprim]))
            if has_data:
                params.append(("total", "std::size_t"))
            if not params:
                continue
            traits = "sbepp::%s_traits<%s>" % ("message" if L.kind == "message" else "group", tag)
            o.append("std::size_t r_trsz_%s(%s) { return %s::size_bytes(%s); }" % (idn, ", ".join("%s %s" % (t, n) for n, t in params), traits, ", ".join(n for n, t in params)))
            self.psize_roots.append((idn, L, gl, has_data))
        # public types
        from .sbe import PRIMS
        for tname, node in s.types.items():
            e = s.enc_of_type(tname)
            tag = "::%s::schema::types::%s" % (pkg, tname)
            a = e.attrs
            kind = node.tag.split("}")[-1]
            if kind == "type":
                P = PRIMS[e.prim]
                items = [("T::name()", "str", tname), ("T::description()", "str", a.get("description", "")), ("static_cast<int>(T::presence())", "u64", PRES[e.presence]),
                         ("T::semantic_type()", "str", a.get("semanticType", "")), ("T::since_version()", "u64", int(a.get("sinceVersion", "0")))]
                if e.presence != "constant":
                    items.append(("T::length()", "u64", e.length))
                if e.kind == "scalar" and e.presence != "constant" and e.prim != "char":
                    vk = "f32" if e.prim == "float" else "f64" if e.prim == "double" else ("i64" if P["signed"] else "u64")
                    items.append(("T::min_value()", vk, ("attr", a["minValue"]) if "minValue" in a else ("default", "min")))
                    items.append(("T::max_value()", vk, ("attr", a["maxValue"]) if "maxValue" in a else ("default", "max")))
                    if e.presence == "optional":
                        items.append(("T::null_value()", vk, ("attr", a["nullValue"]) if "nullValue" in a else ("default", "null")))
                        # the wrapper class must agree with its traits and a default-constructed optional must hold the null value
                        items.append(("::%s::types::%s::null_value()" % (pkg, tname), vk, ("attr", a["nullValue"]) if "nullValue" in a else ("default", "null")))
                        items.append(("::%s::types::%s{}.value()" % (pkg, tname), vk, ("attr", a["nullValue"]) if "nullValue" in a else ("default", "null")))
                    items.append(("::%s::types::%s::min_value()" % (pkg, tname), vk, ("attr", a["minValue"]) if "minValue" in a else ("default", "min")))
                    items.append(("::%s::types::%s::max_value()" % (pkg, tname), vk, ("attr", a["maxValue"]) if "maxValue" in a else ("default", "max")))
                for it in items:
                    pass
                root("typ_" + ident(tname), "sbepp::type_traits<%s>" % tag, [(fn, k, (ex + (e.prim,)) if isinstance(ex, tuple) else ex) for fn, k, ex in items] + dep(a))
            elif kind == "enum":
                root("enm_" + ident(tname), "sbepp::enum_traits<%s>" % tag, [("T::name()", "str", tname), ("T::description()", "str", a.get("description", "")), ("T::since_version()", "u64", int(a.get("sinceVersion", "0")))] + dep(a))
                for vn, vt, va in e.values:
                    val = ord(vt) if e.prim == "char" else int(vt)
                    root("env_%s_%s" % (ident(tname), ident(vn)), "sbepp::enum_value_traits<%s::%s>" % (tag, vn),
                         [("T::name()", "str", vn), ("T::description()", "str", va.get("description", "")), ("T::since_version()", "u64", int(va.get("sinceVersion", "0"))),
                          ("sbepp::to_underlying(T::value())", "u64" if not PRIMS[e.prim]["signed"] or e.prim == "char" else "i64", val)] + dep(va))
            elif kind == "set":
                root("set_" + ident(tname), "sbepp::set_traits<%s>" % tag, [("T::name()", "str", tname), ("T::description()", "str", a.get("description", "")), ("T::since_version()", "u64", int(a.get("sinceVersion", "0")))] + dep(a))
                for cn, ci, ca in e.values:
                    root("chc_%s_%s" % (ident(tname), ident(cn)), "sbepp::set_choice_traits<%s::%s>" % (tag, cn),
                         [("T::name()", "str", cn), ("T::description()", "str", ca.get("description", "")), ("T::since_version()", "u64", int(ca.get("sinceVersion", "0"))), ("T::index()", "u64", ci)] + dep(ca))
            elif kind == "composite":
                root("cmp_" + ident(tname), "sbepp::composite_traits<%s>" % tag, [("T::name()", "str", tname), ("T::description()", "str", a.get("description", "")), ("T::since_version()", "u64", int(a.get("sinceVersion", "0"))),
                                                                                ("T::size_bytes()", "u64", e.size)] + dep(a))


def _emit_type_traits(self, o):
    """type-level traits (C18): value_type / *_type_tag / traits_tag / tag-kind predicates / children tag lists. Every check is a boolean the
    compiler computes (std::is_same, list membership); a root returns them as a bit mask; self.type_trait_roots: [(root, [labels])]"""
    s, pkg = self.s, self.pkg
    self.type_trait_roots = []
    names = set()

    def tyroot(name, checks, usings=()):
        for c0 in range(0, len(checks), 60):
            chunk = checks[c0:c0 + 60]
            nm = name if c0 == 0 else "%s_p%d" % (name, c0 // 60)
            base, k = nm, 1
            while nm in names:
                k += 1
                nm = "%s_x%d" % (base, k)
            names.add(nm)
            o.append("std::uint64_t r_ty_%s() {" % nm)
            for u_ in usings:
                o.append("  " + u_)
            o.append("  std::uint64_t r = 0;")
            for k, (label, expr) in enumerate(chunk):
                o.append("  r |= static_cast<std::uint64_t>((%s) ? 1 : 0) << %d;" % (expr, k))
            o.append("  return r;")
            o.append("}")
            self.type_trait_roots.append((nm, [l for l, _ in chunk]))

    KIND = {"type": 1, "enum": 2, "enum_value": 4, "set": 8, "set_choice": 16, "composite": 32, "field": 64, "group": 128, "data": 256, "message": 512, "schema": 1024}

    def kinds(tag, kind):
        return ("tag-kind-predicates-accept-exactly-%s" % kind, "sbv::tag_kinds<%s>() == %du" % (tag, KIND[kind]))

    def same(a, b):
        return "std::is_same<%s, %s>::value" % (a, b)

    def tlist(tags):
        return "::sbepp::type_list<%s>" % ", ".join(tags)

    def repr_type(e):
        """(C++ representation type for Byte = char, its tag, is_template) of an encoding at a use site; None when the schema alone does not name it"""
        if e.type_name is not None:
            tmpl = e.kind in ("array", "composite")
            return ("::%s::types::%s%s" % (pkg, e.type_name, "<char>" if tmpl else ""), "::%s::schema::types::%s" % (pkg, e.type_name), tmpl)
        if e.kind == "scalar" and e.prim in CPP_PRIM and e.presence in ("required", "optional"):
            t = "::sbepp::%s%s_t" % (e.prim, "_opt" if e.presence == "optional" else "")
            return (t, t, False)
        return None

    stag = "::%s::schema" % pkg
    # schema
    pub = list(s.types.keys())
    checks = [kinds(stag, "schema"),
              ("message_tags-in-schema-order", same("T::message_tags", tlist(["%s::messages::%s" % (stag, m.name) for m in s.messages]))),
              ("type_tags-has-every-public-type-once", "sbv::list_size<T::type_tags>::value == %d" % len(pub)),
              ("header_type_tag", same("T::header_type_tag", "%s::types::%s" % (stag, s.header_type))),
              ("header_type", same("T::header_type<char>", "::%s::types::%s<char>" % (pkg, s.header_type)))]
    for t in pub:
        checks.append(("type_tags-contains-%s" % t, "sbv::list_has<T::type_tags, %s::types::%s>::value" % (stag, t)))
    tyroot("schema", checks, ["using T = sbepp::schema_traits<%s>;" % stag])
    # levels
    for L, msg in s.walk_levels():
        tag = "%s::messages::%s" % (stag, "::".join(L.path))
        idn = ident(*L.path)
        if L.kind == "message":
            view = "::%s::messages::%s<char>" % (pkg, L.name)
            us = ["using T = sbepp::message_traits<%s>;" % tag, "using V = %s;" % view, "using E = V;"]
            checks = [kinds(tag, "message"), ("value_type-is-the-message-view", same("T::value_type<char>", view)), ("traits_tag-of-view-is-the-tag", same("sbepp::traits_tag_t<V>", tag))]
        else:
            ptag = "%s::messages::%s" % (stag, "::".join(L.path[:-1]))
            parent = ("typename sbepp::message_traits<%s>::template value_type<char>" if len(L.path) == 2 else "typename sbepp::group_traits<%s>::template entry_type<char>") % ptag
            us = ["using T = sbepp::group_traits<%s>;" % tag, "using P = %s;" % parent, "using V = T::value_type<char>;", "using E = T::entry_type<char>;"]
            dn = L.dimension.type_name
            checks = [kinds(tag, "group"), ("value_type-is-what-the-accessor-returns", same("V", "sbv::rmcvref_t<decltype(std::declval<P>().%s())>" % L.name)),
                      ("entry_type-is-the-group-element", same("E", "typename V::value_type")), ("traits_tag-of-view-is-the-tag", same("sbepp::traits_tag_t<V>", tag)),
                      ("dimension_type", same("T::dimension_type<char>", "::%s::types::%s<char>" % (pkg, dn))), ("dimension_type_tag", same("T::dimension_type_tag", "%s::types::%s" % (stag, dn)))]
        checks += [("field_tags-in-schema-order", same("T::field_tags", tlist(["%s::%s" % (tag, n) for n, e, off, fa in L.fields]))),
                   ("group_tags-in-schema-order", same("T::group_tags", tlist(["%s::%s" % (tag, g.name) for g in L.groups]))),
                   ("data_tags-in-schema-order", same("T::data_tags", tlist(["%s::%s" % (tag, n) for n, e, da in L.data])))]
        for n, e, off, fa in L.fields:
            ft = "sbepp::field_traits<%s::%s>" % (tag, n)
            checks.append(kinds("%s::%s" % (tag, n), "field"))
            rt = repr_type(e) if e.presence != "constant" else None
            if rt:
                vt = ("typename %s::template value_type<char>" % ft) if rt[2] else ("typename %s::value_type" % ft)
                checks.append(("%s-value_type-is-%s" % (n, rt[0]), same(vt, rt[0])))
                checks.append(("%s-value_type_tag" % n, same("typename %s::value_type_tag" % ft, rt[1])))
                checks.append(("%s-accessor-returns-value_type" % n, same("sbv::rmcvref_t<decltype(std::declval<E>().%s())>" % n, vt)))
        for n, e, da in L.data:
            dt = "sbepp::data_traits<%s::%s>" % (tag, n)
            checks.append(kinds("%s::%s" % (tag, n), "data"))
            checks.append(("%s-value_type-is-what-the-accessor-returns" % n, same("typename %s::template value_type<char>" % dt, "sbv::rmcvref_t<decltype(std::declval<E>().%s())>" % n)))
            checks.append(("%s-length_type_tag" % n, same("typename %s::length_type_tag" % dt, "%s::types::%s::length" % (stag, e.type_name))))
            checks.append(("%s-length_type-is-the-sbe_size-type" % n, same("typename %s::length_type" % dt, "typename %s::template value_type<char>::sbe_size_type" % dt)))
            le, _ = e.member("length")
            checks.append(("%s-length-primitive" % n, same("typename %s::length_type::value_type" % dt, CPP_PRIM[le.prim])))
        tyroot(("msg_" if L.kind == "message" else "grp_") + idn, checks, us)
    # public types
    for tname, node in s.types.items():
        e = s.enc_of_type(tname)
        tag = "%s::types::%s" % (stag, tname)
        kind = node.tag.split("}")[-1]
        rep = "::%s::types::%s" % (pkg, tname)
        if kind == "type":
            tmpl = e.kind == "array"
            us = ["using T = sbepp::type_traits<%s>;" % tag]
            checks = [kinds(tag, "type"), ("primitive_type", same("T::primitive_type", CPP_PRIM[e.prim]))]
            if e.presence != "constant":
                checks.append(("value_type", same("T::value_type<char>" if tmpl else "T::value_type", rep + ("<char>" if tmpl else ""))))
                checks.append(("traits_tag-of-value_type-is-the-tag", same("sbepp::traits_tag_t<%s>" % (rep + ("<char>" if tmpl else "")), tag)))
            tyroot("typ_" + ident(tname), checks, us)
        elif kind == "enum":
            checks = [kinds(tag, "enum"), ("encoding_type", same("T::encoding_type", CPP_PRIM[e.prim])), ("value_type", same("T::value_type", rep)), ("traits_tag-of-value_type-is-the-tag", same("sbepp::traits_tag_t<%s>" % rep, tag)),
                      ("value_tags-in-schema-order", same("T::value_tags", tlist(["%s::%s" % (tag, vn) for vn, vt, va in e.values])))]
            checks += [kinds("%s::%s" % (tag, vn), "enum_value") for vn, vt, va in e.values]
            tyroot("enm_" + ident(tname), checks, ["using T = sbepp::enum_traits<%s>;" % tag])
        elif kind == "set":
            checks = [kinds(tag, "set"), ("encoding_type", same("T::encoding_type", CPP_PRIM[e.prim])), ("value_type", same("T::value_type", rep)), ("traits_tag-of-value_type-is-the-tag", same("sbepp::traits_tag_t<%s>" % rep, tag)),
                      ("choice_tags-in-schema-order", same("T::choice_tags", tlist(["%s::%s" % (tag, cn) for cn, ci, ca in e.values])))]
            checks += [kinds("%s::%s" % (tag, cn), "set_choice") for cn, ci, ca in e.values]
            tyroot("set_" + ident(tname), checks, ["using T = sbepp::set_traits<%s>;" % tag])
        elif kind == "composite":
            checks = [kinds(tag, "composite"), ("value_type", same("T::value_type<char>", rep + "<char>")), ("traits_tag-of-value_type-is-the-tag", same("sbepp::traits_tag_t<%s<char>>" % rep, tag)),
                      ("element_tags-in-schema-order", same("T::element_tags", tlist(["%s::%s" % (tag, mn) for mn, me, mo in e.members])))]
            tyroot("cmp_" + ident(tname), checks, ["using T = sbepp::composite_traits<%s>;" % tag])


Gen.emit_type_traits = _emit_type_traits


def generate(schema_xml, out_path, schema_name=None):
    s = Schema(schema_xml)
    g = Gen(s, schema_name).collect()
    txt = g.emit()
    if not os.path.exists(out_path) or open(out_path).read() != txt:
        open(out_path, "w").write(txt)
    return g
