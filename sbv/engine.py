"""Contract emission, DFCC pipeline, counterexample extraction, native replay, evidence."""
import concurrent.futures
import json
import os
import re
import shutil
import subprocess
import sys
import time

from .build import VERIF, REPO, CACHE, SBEPP_INC, ToolError, Unit, Fn, sh, text_hash

WORK = os.path.join(CACHE, "work")
SPEC_DIR = os.path.join(VERIF, "spec")
WIT_BYTES = 40  # bytes of each fresh buffer that are pinned to trace-visible ghosts (counterexample extraction only)

DEFAULT_UNWIND = 24
CHECK_FLAGS = ["--bounds-check", "--pointer-check", "--signed-overflow-check", "--undefined-shift-check", "--div-by-zero-check"]

# ---------------------------------------------------------------------------
# constructive preconditions: each item yields a CPROVER requires clause *and* native set-up code


class Pre:
    pass


class BUF(Pre):
    """`ptr` points to the first byte of a fresh object of exactly `length` bytes"""

    def __init__(self, ptr, length, cast="char *", pins=()):
        # pins: extra index expressions (over ghosts) whose bytes are made visible in counterexamples besides the first WIT_BYTES bytes
        self.ptr, self.length, self.cast, self.pins = ptr, length, cast, list(pins)


class OBJ(Pre):
    """`ptr` points to a fresh object of record type `rec` (all scalar leaves unconstrained)"""

    def __init__(self, ptr, rec):
        self.ptr, self.rec = ptr, rec


class SET(Pre):
    """lvalue is defined as expr (scalars, or pointers derived from an already established pointer by value equality *inside the same object* are not allowed: use INRANGE)"""

    def __init__(self, lv, expr):
        self.lv, self.expr = lv, expr


class INRANGE(Pre):
    """pointer lvalue lies in [lo, hi] of an established object, at lo + off"""

    def __init__(self, lv, lo, hi, off):
        self.lv, self.lo, self.hi, self.off = lv, lo, hi, off


class ASSUME(Pre):
    def __init__(self, cond):
        self.cond = cond


class Loop:
    def __init__(self, assigns, invariants, decreases=None):
        self.assigns, self.invariants, self.decreases = assigns, invariants, decreases


class Contract:
    """A function contract on one lowered function.

    post: list of (clause name, C expression); RET and OLD(e) are available.
    assigns: list of C assigns targets, or None for 'no frame condition stated'
    mode: 'S' handler = assume(false) | 'N' handler = assert(false) | 'R' report contract: no normal return expected
    """

    def __init__(self, fn, name, pre, post, assigns=(), ghosts=(), mode="S", replaces=(), loops=None, unwind=None,
                 kind="unbounded", extra_flags=(), objbits=None, note="", prop=None, props=None, timeout=None, backends=None, libc=(), optional=False, stubs=()):
        self.fn = fn
        self.name = name
        self.pre = list(pre)
        self.post = list(post)
        self.assigns = None if assigns is None else list(assigns)
        self.ghosts = list(ghosts)
        self.mode = mode
        self.replaces = list(replaces)
        self.loops = loops or {}
        self.unwind = unwind
        self.kind = kind
        self.extra_flags = list(extra_flags)
        self.objbits = objbits
        self.note = note
        self.props = set(props) if props else ({prop} if prop else set())
        self.timeout = timeout
        self.backends = backends  # preferred order of back-end names (products: put kissat/z3 first)
        self.libc = list(libc)    # C library functions replaced by frame-only contracts (assumed dependency contracts)
        self.stubs = list(stubs)  # C library functions modelled by ghost-index over-approximations (GHOST_STUBS)
        for st in self.stubs:
            for g in STUB_GHOSTS[st]:
                if g not in [x[1] for x in self.ghosts]:
                    self.ghosts.append(("unsigned long", g))
        self.optional = optional  # best effort: no verdict within the budget is recorded in the evidence but does not make the check undecided

    @property
    def unit(self):
        return self.fn.unit

    def ident(self):
        return "%s/%s/%s" % (self.unit.name, self.name, self.mode)


# ---------------------------------------------------------------------------
# text emission

def _balanced(s, i):
    """index just after the parenthesis group starting at s[i] == '('"""
    d = 0
    for j in range(i, len(s)):
        if s[j] == "(":
            d += 1
        elif s[j] == ")":
            d -= 1
            if d == 0:
                return j + 1
    raise ToolError("unbalanced parentheses in contract expression: " + s)


def cprover_expr(e):
    e = re.sub(r"\bRET\b", "__CPROVER_return_value", e)
    e = re.sub(r"\bOLD\(", "__CPROVER_old(", e)
    return e


def clauses(c, for_replace=False):
    """CPROVER clause text for contract c"""
    out = []
    u = c.unit
    wit_k = [0]
    for it in c.pre:
        if isinstance(it, BUF):
            out.append("__CPROVER_requires(__CPROVER_is_fresh(%s, %s))" % (it.ptr, it.length))
            if not for_replace:
                k = wit_k[0]
                wit_k[0] += 1
                conj = " && ".join("((%s) <= %d || ((char *)(%s))[%d] == sbv_w%d[%d])" % (it.length, i, it.ptr, i, k, i) for i in range(WIT_BYTES))
                out.append("__CPROVER_requires(%s)" % conj)
                for j, px in enumerate(it.pins):
                    out.append("__CPROVER_requires((%s) >= (%s) || ((char *)(%s))[%s] == sbv_pin%d_%d)" % (px, it.length, it.ptr, px, k, j))
        elif isinstance(it, OBJ):
            out.append("__CPROVER_requires(__CPROVER_is_fresh(%s, sizeof(*(%s))))" % (it.ptr, it.ptr))
            if not for_replace:
                for path, ct in u.scalar_leaves(it.rec):
                    g = ghost_name(it.ptr, path)
                    if ct.strip() in ("float", "double"):  # NaN != NaN: pin the bit pattern, not the value
                        w = "32" if ct.strip() == "float" else "64"
                        out.append("__CPROVER_requires(SPEC_BITS_f%s((%s)->%s) == SPEC_BITS_f%s(%s))" % (w, it.ptr, path[1:], w, g))
                    else:
                        out.append("__CPROVER_requires((%s)->%s == %s)" % (it.ptr, path[1:], g))
        elif isinstance(it, SET):
            out.append("__CPROVER_requires(%s == (%s))" % (it.lv, it.expr))
        elif isinstance(it, INRANGE):
            out.append("__CPROVER_requires(__CPROVER_pointer_in_range_dfcc(%s, %s, %s))" % (it.lo, it.lv, it.hi))
            out.append("__CPROVER_requires(%s == (%s) + (%s))" % (it.lv, it.lo, it.off))
        elif isinstance(it, ASSUME):
            out.append("__CPROVER_requires(%s)" % it.cond)
        else:
            raise ToolError("bad pre item")
    for _, e in c.post:
        out.append("__CPROVER_ensures(%s)" % cprover_expr(e))
    if c.mode == "R" and not for_replace:
        pass
    elif not for_replace:
        out.append("__CPROVER_ensures(sbv_canary != 0 || SBV_CANARY_OK) /* reach canary: must FAIL */")
    if c.assigns is not None:
        tg = list(c.assigns)
        if not for_replace:
            tg += ["sbv_steps"]
            if c.stubs:
                tg += ["sbv_mc", "sbv_sc"]
        out.append("__CPROVER_assigns(%s)" % "; ".join(tg))
    return "\n".join(out)


def ghost_name(ptr, path):
    return "sbv_o_" + re.sub(r"[^A-Za-z0-9]", "_", ptr + path)


def prune(unit, keep_roots):
    """text of the lowered unit restricted to functions reachable from keep_roots (mangled names)"""
    text = unit.text
    blocks = {}
    for m in re.finditer(r"/\*@BEGIN (\w+)@\*/\n(.*?)/\*@END \1@\*/\n", text, re.S):
        blocks[m.group(1)] = m.group(2)
    head = text[: text.index("/*@BEGIN ")] if "/*@BEGIN " in text else text
    # call graph by identifier occurrence
    names = set(blocks)
    seen, todo = set(), [r for r in keep_roots]
    while todo:
        n = todo.pop()
        if n in seen or n not in blocks:
            continue
        seen.add(n)
        for w in set(re.findall(r"\b_Z\w+|\b\w+\b", blocks[n])):
            if w in names and w not in seen:
                todo.append(w)
    # drop prototypes of functions that are not kept (keeps file small; harmless if kept)
    body = "".join("/*@BEGIN %s@*/\n%s/*@END %s@*/\n\n" % (n, blocks[n], n) for n in blocks if n in seen)
    return head, body, seen


def emit_c(c, path, canary=None):
    """write the verification C file for contract c (enforced) to path; returns list of replaced mangled names"""
    u = c.unit
    roots = [c.fn.mangled]
    head, body, seen = prune(u, roots)
    contracts = {c.fn.mangled: clauses(c)}
    replaced = []
    for r in c.replaces:
        if r.fn.mangled in seen and r.fn.mangled != c.fn.mangled:
            contracts[r.fn.mangled] = clauses(r, for_replace=True)
            replaced.append(r.fn.mangled)

    def sub_contract(m):
        return contracts.get(m.group(1), "")

    body = re.sub(r"/\*@CONTRACT (\w+)@\*/", sub_contract, body)

    c.loops_applied = []

    def sub_loop(m):
        # loop contracts: key k = k-th loop of the function under contract, key (mangled, k) = k-th loop of a callee (e.g. a libstdc++ algorithm
        # or another member function whose loop this operation may reach)
        key = int(m.group(2)) if m.group(1) == c.fn.mangled and int(m.group(2)) in c.loops else (m.group(1), int(m.group(2)))
        if key in c.loops:
            L = c.loops[key]
            c.loops_applied.append(key)
            s = "__CPROVER_assigns(%s)\n" % "; ".join(list(L.assigns) + ["sbv_steps"]) if L.assigns is not None else ""
            for inv in L.invariants:
                s += "__CPROVER_loop_invariant(%s)\n" % inv
            if L.decreases:
                s += "__CPROVER_decreases(%s)\n" % L.decreases
            return s
        return ""

    body = re.sub(r"/\*@LOOP (\w+) (\d+)@\*/", sub_loop, body)
    pre = ['#include "%s"' % os.path.join(SPEC_DIR, "spec.h"), "unsigned long sbv_steps;", "int sbv_canary;", "#define SBV_STEP (sbv_steps++)",
           "#ifdef SBV_SMALL_WITNESS /* counterexample search binary: canaries off */", "#define SBV_CANARY_OK 1", "#else", "#define SBV_CANARY_OK 0", "#endif"]
    nbuf = sum(1 for it in c.pre if isinstance(it, BUF))
    for k in range(nbuf):
        pre.append("char sbv_w%d[%d];" % (k, WIT_BYTES))
    for k, it in enumerate([x for x in c.pre if isinstance(x, BUF)]):
        for j in range(len(it.pins)):
            pre.append("char sbv_pin%d_%d;" % (k, j))
    for it in c.pre:
        if isinstance(it, OBJ):
            for pth, ct in u.scalar_leaves(it.rec):
                pre.append("%s %s;" % (ct, ghost_name(it.ptr, pth)))
    for ct, g in c.ghosts:
        pre.append("%s %s;" % (ct, g))
    # handler
    hname = None
    for f in u.functions():
        if f.qual == "sbepp::assertion_failed":
            hname = f
    tail = []
    if hname is not None:
        sig = "void %s(%s)" % (hname.mangled, ", ".join("%s %s" % (p["ctype"], p["name"]) for p in hname.params))
        if c.mode == "N":
            tail.append(sig + ' { __CPROVER_assert(0, "assertion handler invoked although the documented preconditions hold"); __CPROVER_assume(0); }')
        elif c.mode == "R":
            tail.append(sig + ' { __CPROVER_assert(sbv_canary != 0 || SBV_CANARY_OK, "handler reach canary: must FAIL"); __CPROVER_assume(0); }')
        else:
            tail.append(sig + " { __CPROVER_assume(0); }")
    if c.stubs:
        pre.append("unsigned sbv_mc, sbv_sc; /* call counters of the ghost-index stubs */")
    for fn in c.stubs:
        tail.append(GHOST_STUBS[fn])
    for fn in c.libc:
        if re.search(r"\b%s\(" % fn, body):
            tail.append(LIBC_CONTRACTS[fn])
            replaced.append(fn)
    tail.append("_Bool sbv_is_consteval(void) { _Bool b; return b; }")
    if re.search(r"\bmemchr\(", body):
        # CBMC 6.11 ships no model of memchr: C stub written from the ISO C text (trusted, listed in the evidence)
        tail.append("void *memchr(const void *s, int c, size_t n) { const unsigned char *p = (const unsigned char *)s; for(size_t i = 0; i < n; i++) { if(p[i] == (unsigned char)c) return (void *)(p + i); } return (void *)0; }")
    tail.append(harness_main(c))
    with open(path, "w") as f:
        f.write("\n".join(pre) + "\n" + head + "\n" + body + "\n" + "\n".join(tail) + "\n")
    return replaced


LIBC_CONTRACTS = {
    "memmove": "void *memmove(void *dest, const void *src, size_t n)\n__CPROVER_requires(__CPROVER_r_ok(src, n) && __CPROVER_w_ok(dest, n))\n__CPROVER_assigns(__CPROVER_object_upto(dest, n))\n__CPROVER_ensures(__CPROVER_return_value == dest);",
    "memset": "void *memset(void *s, int c, size_t n)\n__CPROVER_requires(__CPROVER_w_ok(s, n))\n__CPROVER_assigns(__CPROVER_object_upto(s, n))\n__CPROVER_ensures(__CPROVER_return_value == s);",
}


# Ghost-index over-approximations of C library functions (ISO C semantics restricted to one symbolic byte).
# memmove(dest, src, n): every byte of dest[0..n) gets an arbitrary value, except the byte at offset t of the destination OBJECT
# (t: a ghost chosen by the environment, one per call ordinal), which gets the old value of the corresponding source byte.
# The real memmove satisfies this for every t, so whatever is proved for an unconstrained ghost holds for the real function;
# the precondition (src readable, dest writable for n bytes) is asserted.
GHOST_STUBS = {
    "memmove": """void *memmove(void *dest, const void *src, size_t n) {
  unsigned long t = sbv_mc == 0 ? sbv_mt0 : sbv_mc == 1 ? sbv_mt1 : sbv_mt2; sbv_mc++;
  __CPROVER_assert(n == 0 || __CPROVER_r_ok(src, n), "memmove source region readable");
  __CPROVER_assert(n == 0 || __CPROVER_w_ok(dest, n), "memmove destination region writable");
  unsigned long o = __CPROVER_POINTER_OFFSET(dest);
  _Bool have = t >= o && t - o < n; unsigned long i = t - o; char tmp = 0;
  if(have) tmp = ((const char *)src)[i];
  if(n != 0) __CPROVER_havoc_slice(dest, n);
  if(have) ((char *)dest)[i] = tmp;
  return dest;
}""",
    "memset": """void *memset(void *s, int c, size_t n) {
  unsigned long t = sbv_sc == 0 ? sbv_st0 : sbv_st1; sbv_sc++;
  __CPROVER_assert(n == 0 || __CPROVER_w_ok(s, n), "memset destination region writable");
  unsigned long o = __CPROVER_POINTER_OFFSET(s);
  if(n != 0) __CPROVER_havoc_slice(s, n);
  if(t >= o && t - o < n) ((char *)s)[t - o] = (char)(unsigned char)c;
  return s;
}""",
    # strlen(s): returns the ghost sbv_l under the assumption that s[sbv_l] is a NUL and that the ghost byte sbv_li before it is
    # not; every real call (first NUL at L) is the instance sbv_l == L
    "strlen": """size_t strlen(const char *s) {
  __CPROVER_assert(__CPROVER_r_ok(s, sbv_l + 1), "strlen: string readable up to its terminator");
  __CPROVER_assume(s[sbv_l] == 0 && (sbv_li >= sbv_l || s[sbv_li] != 0));
  return sbv_l;
}""",
}
STUB_GHOSTS = {"memmove": ["sbv_mt0", "sbv_mt1", "sbv_mt2"], "memset": ["sbv_st0", "sbv_st1"], "strlen": ["sbv_l", "sbv_li"]}


def nd(ct):
    """nondeterministic value of C type ct that respects the type's invariant (a _Bool is 0 or 1)"""
    return "(t ? 1 : 0)" if ct.strip() == "_Bool" else "t"


def harness_main(c):
    u = c.unit
    L = ["int main(void) {"]
    L.append("  sbv_steps = 0; sbv_canary = 0;" + (" sbv_mc = 0; sbv_sc = 0;" if c.stubs else ""))
    decl = []
    args = []
    for i, p in enumerate(c.fn.params):
        ct = p["ctype"].strip()
        v = "a%d" % i
        decl.append("  %s %s;" % (ct, v))
        args.append(v)
    L += decl
    # ghosts chosen by the environment
    for ct, g in c.ghosts:
        L.append("  { %s t; %s = %s; }" % (ct, g, nd(ct)))
    L.append("#ifdef SBV_SMALL_WITNESS /* counterexample search only: prefer small buffers so that the witness can be replayed natively */")
    for ct, g in c.ghosts:
        if ct.strip() == "unsigned long":
            L.append("  __CPROVER_assume(%s <= 4096);" % g)
    L.append("#endif")
    nbuf = sum(1 for it in c.pre if isinstance(it, BUF))
    for k in range(nbuf):
        for i in range(WIT_BYTES):
            L.append("  { char t; sbv_w%d[%d] = t; }" % (k, i))
    for k, it in enumerate([x for x in c.pre if isinstance(x, BUF)]):
        for j in range(len(it.pins)):
            L.append("  { char t; sbv_pin%d_%d = t; }" % (k, j))
    for it in c.pre:
        if isinstance(it, OBJ):
            for pth, ct in u.scalar_leaves(it.rec):
                L.append("  { %s t; %s = %s; }" % (ct, ghost_name(it.ptr, pth), nd(ct)))
    # make scalar leaves of parameters visible in the trace
    for i, p in enumerate(c.fn.params):
        ct = p["ctype"].strip()
        if ct.endswith("*"):
            continue
        if ct.startswith("struct "):
            for pth, lt in u.scalar_leaves(ct):
                L.append("  { %s t; a%d%s = %s; }" % (lt, i, pth, nd(lt)))
        else:
            L.append("  { %s t; a%d = %s; }" % (ct, i, nd(ct)))
    L.append("  %s(%s);" % (c.fn.mangled, ", ".join(args)))
    L.append("  return 0;")
    L.append("}")
    return "\n".join(L)


# ---------------------------------------------------------------------------
# running CBMC

class Result:
    def __init__(self, c):
        self.c = c
        self.props = []  # dict(name, desc, status, clause)
        self.backend = None
        self.seconds = 0.0
        self.status = "undecided"  # ok | failed | undecided | vacuous
        self.detail = ""
        self.trace = None
        self.workdir = None
        self.replaced = []

    def failed_props(self):
        return [p for p in self.props if p["status"] == "FAILURE" and not p.get("canary")]


BACKENDS = [
    ("minisat", [], 150),
    ("kissat", ["--external-sat-solver", "kissat"], 480),  # generous: the same check has to finish on a slower, busier machine
    ("z3", ["--z3"], 300),
    ("cvc5", ["--cvc5"], 300),
]


def run_contract(c, tier="quick", keep=False):
    r = Result(c)
    wd = os.path.join(WORK, "%d" % os.getpid(), re.sub(r"[^A-Za-z0-9_.-]", "_", c.ident())[:150] + "-" + text_hash(c.ident())[:6])
    os.makedirs(wd, exist_ok=True)
    r.workdir = wd
    src = os.path.join(wd, "h.c")
    t0 = time.time()
    try:
        r.replaced = emit_c(c, src)
        p = sh(["goto-cc", "-DSBV_CPROVER", "-o", os.path.join(wd, "a.gb"), src], check=False, timeout=300)
        if p.returncode != 0:
            raise ToolError("goto-cc failed for %s:\n%s" % (c.ident(), p.stdout[-3000:]))
        cmd = ["goto-instrument", "--dfcc", "main", "--enforce-contract", c.fn.mangled]
        for m in r.replaced:
            cmd += ["--replace-call-with-contract", m]
        if getattr(c, "loops_applied", None):
            cmd += ["--apply-loop-contracts"]
        cmd += [os.path.join(wd, "a.gb"), os.path.join(wd, "b.gb")]
        p = sh(cmd, check=False, timeout=600)
        if p.returncode != 0:
            raise ToolError("goto-instrument --dfcc failed for %s:\n%s" % (c.ident(), p.stdout[-3000:]))
        flags = list(CHECK_FLAGS) + list(c.extra_flags)
        # every loop is closed by a loop contract, by complete unwinding of a constant trip count, or by a stated bound; the default bound is
        # only a guard against loops that a changed tree introduces (an unwinding assertion failing alone means "undecided", see classify)
        flags += ["--unwind", str(c.unwind or DEFAULT_UNWIND), "--unwinding-assertions"]
        flags += ["--object-bits", str(c.objbits or 10)]
        last = ""
        order = BACKENDS if not c.backends else sorted(BACKENDS, key=lambda b: (c.backends.index(b[0]) if b[0] in c.backends else 99))
        for name, bflags, tmo in order:
            if c.timeout:
                tmo = c.timeout
            if os.environ.get("SBV_TMO"):
                tmo = int(os.environ["SBV_TMO"])
            if tier == "thorough":
                tmo *= 3
            try:
                pr = _cbmc(tmo, flags + bflags, wd, trace=False)
            except Exception as e:  # pragma: no cover
                last = str(e)
                continue
            if pr.returncode in (0, 10):
                res = parse_text_results(pr.stdout)
                if not res or "VERIFICATION" not in pr.stdout:
                    last = "no result in cbmc output"
                    continue
                r.backend = name
                r.props = res
                if any(p.get("status") == "FAILURE" and "must FAIL" not in p.get("description", "") and not p.get("description", "").startswith("pointer relation:") and not _is_canary_post(c, p) for p in res):
                    # re-run with traces for counterexample extraction (statuses stay those of the first run):
                    # first restricted to small buffers (replayable witnesses), then unrestricted for what is left
                    def attach(prx, override=False):
                        if os.environ.get("SBV_DEBUG"):
                            sys.stderr.write("attach rc=%s len=%d err=%s\n" % (prx.returncode, len(prx.stdout), prx.stderr[-300:]))
                        if prx.returncode not in (0, 10):
                            return
                        try:
                            for item in json.loads(prx.stdout):
                                if isinstance(item, dict) and "result" in item:
                                    tr = {p.get("property"): p.get("trace") for p in item["result"] if p.get("trace") and p.get("status") == "FAILURE"}
                                    for p in r.props:
                                        if p.get("property") in tr and p.get("status") == "FAILURE" and (override or "trace" not in p):
                                            p["trace"] = tr[p.get("property")]
                                            if os.environ.get("SBV_DEBUG"):
                                                sys.stderr.write("  attached %s: %s\n" % (p.get("property")[-20:], {k: v.get("data") for k, v in witness_from_trace(p["trace"]).items() if k in ("sbv_n", "sbv_c")}))
                        except Exception as e:
                            sys.stderr.write("trace attach failed: %r\n" % (e,))
                    try:
                        sh(["goto-cc", "-DSBV_CPROVER", "-DSBV_SMALL_WITNESS", "-o", os.path.join(wd, "s_a.gb"), src], timeout=300)
                        sh([x if x != os.path.join(wd, "a.gb") else os.path.join(wd, "s_a.gb") for x in cmd[:-1]] + [os.path.join(wd, "s_b.gb")], timeout=600)
                        attach(_cbmc(tmo * 2, flags + bflags, wd, trace=True, gb="s_b.gb"), override=True)
                    except (ToolError, subprocess.TimeoutExpired) as e:
                        sys.stderr.write("small-witness search failed for %s: %s\n" % (c.ident(), str(e)[:500]))
                    if any(p.get("status") == "FAILURE" and "trace" not in p and not _is_canary_post(c, p) and "must FAIL" not in p.get("description", "") for p in r.props):
                        attach(_cbmc(min(tmo, 120), flags + bflags, wd, trace=True))
                break
            last = "%s: exit %d %s" % (name, pr.returncode, (pr.stdout[-300:] + pr.stderr[-300:]).replace("\n", " "))
        else:
            r.status = "undecided"
            r.detail = "no back end gave an answer: " + last
            return r
        classify(r)
    except ToolError as e:
        r.status = "undecided"
        r.detail = str(e)
    except subprocess.TimeoutExpired as e:
        r.status = "undecided"
        r.detail = "timeout: %s" % e
    finally:
        r.seconds = time.time() - t0
    return r


def _cbmc(tmo, flags, wd, trace, gb="b.gb"):
    """deciding run: plain text UI (no traces: a trace through a havocked slice of symbolic size can be gigabytes); trace run: JSON"""
    # TMPDIR: cbmc writes the CNF for an external SAT solver to a temporary file and leaves it behind when it is stopped by the timeout;
    # inside the contract's work directory it is removed with it (never under /tmp)
    return subprocess.run(["bash", "-c", "ulimit -v 12000000; export TMPDIR=%s; exec timeout %d cbmc %s %s %s" % (wd, tmo, " ".join(flags), "--json-ui --trace" if trace else "", os.path.join(wd, gb))],
                          stdout=subprocess.PIPE, stderr=subprocess.PIPE, text=True, errors="replace")


_RES_RE = re.compile(r"^\[(?P<name>[^\]]+)\] (?:line \d+ )?(?P<desc>.*): (?P<st>SUCCESS|FAILURE|UNKNOWN|ERROR)$")


def parse_text_results(out):
    res = []
    for line in out.splitlines():
        m = _RES_RE.match(line)
        if m:
            res.append({"property": m.group("name"), "description": m.group("desc"), "status": m.group("st")})
    return res


def _is_canary_post(c, p):
    m = re.search(r"\.postcondition\.(\d+)$", p.get("property", ""))
    return bool(m) and p.get("property", "").startswith(c.fn.mangled + ".") and int(m.group(1)) - 1 >= len(c.post)


def classify(r):
    c = r.c
    n_post = len(c.post)
    props = []
    canary_seen = False
    canary_failed = False
    for p in r.props:
        name = p.get("property", "")
        desc = p.get("description", "")
        st = p.get("status", "")
        if desc.startswith("pointer relation:"):
            continue  # comparing a computed out-of-object pointer is not an access (documented assumption)
        d = dict(name=name, desc=desc, status=st)
        m = re.search(r"\.postcondition\.(\d+)$", name)
        if m and name.startswith(c.fn.mangled + "."):
            k = int(m.group(1)) - 1
            if k < n_post:
                d["clause"] = c.post[k][0]
                d["expr"] = c.post[k][1]
            else:
                d["canary"] = True
        if "must FAIL" in desc or d.get("canary"):
            d["canary"] = True
            canary_seen = True
            if st == "FAILURE":
                canary_failed = True
        if st == "FAILURE" and not d.get("canary") and "trace" in p:
            d["trace"] = p["trace"]
        props.append(d)
    r.props = props
    real = [p for p in props if not p.get("canary")]
    if not real:
        r.status = "undecided"
        r.detail = "no obligations generated"
        return
    # every ensures clause must have produced an obligation
    got = {p.get("clause") for p in real if "clause" in p}
    missing = [n for n, _ in c.post if n not in got]
    if missing:
        r.status = "undecided"
        r.detail = "ensures clauses without obligation: %s" % missing
        return
    if getattr(c, "loops_applied", None) and not any("loop invariant" in p["desc"].lower() or "loop_invariant" in p["name"] for p in real):
        r.status = "undecided"
        r.detail = "loop contract was not applied (no loop invariant obligations)"
        return
    bad = [p for p in real if p["status"] == "FAILURE"]
    if bad and all("unwinding assertion" in p["desc"] for p in bad):
        # a loop that the unchanged tree does not have here (no loop contract, or more iterations than the stated bound): the paths inside the
        # bound satisfy every clause, nothing is decided beyond it -- undecided, never a violation
        r.status = "undecided"
        r.detail = "unexpected loop (unwinding bound %s exceeded, no other obligation fails): %s" % (c.unwind or DEFAULT_UNWIND, [p["name"] for p in bad][:3])
        return
    if bad:
        r.status = "failed"  # properties CBMC reports UNKNOWN are those behind a failed one (assert-then-assume cascade)
        return
    if any(p["status"] != "SUCCESS" for p in real):
        r.status = "undecided"
        r.detail = "properties without verdict: %s" % [p["name"] for p in real if p["status"] != "SUCCESS"][:5]
        return
    if not canary_seen or not canary_failed:
        r.status = "vacuous"
        r.detail = "reach canary did not fail: the precondition is contradictory or the end of the function is unreachable"
        return
    r.status = "ok"


# ---------------------------------------------------------------------------
# counterexample extraction and native replay

def _flatten(prefix, v, out):
    if not isinstance(v, dict):
        return
    if "members" in v:
        for m in v["members"]:
            _flatten(prefix + "." + m["name"], m.get("value"), out)
    elif "elements" in v:
        for e in v["elements"]:
            _flatten("%s[%s]" % (prefix, e.get("index")), e.get("value"), out)
    elif "data" in v:
        out[prefix] = v


def witness_from_trace(trace):
    """name -> value dict for assignments made in main before the call"""
    vals = {}
    for st in trace:
        if st.get("stepType") != "assignment":
            continue
        if st.get("hidden"):
            continue
        fn = st.get("sourceLocation", {}).get("function")
        lhs = st.get("lhs")
        if lhs is None:
            continue
        if fn != "main" and not lhs.startswith("sbv_"):
            continue
        if fn != "main":
            continue
        if not re.match(r"(a\d+($|[.\[])|sbv_)", lhs):
            continue
        _flatten(re.sub(r"\[(\d+)[a-z]+\]", r"[\1]", lhs), st.get("value"), vals)  # CBMC prints array indices as '[0l]'
    return vals


def c_literal(v, ctype):
    d = v.get("data")
    nm = v.get("name")
    if nm in ("integer", "boolean"):
        if d in ("TRUE", "true"):
            return "1"
        if d in ("FALSE", "false"):
            return "0"
        b = v.get("binary")
        if b is not None:
            w = len(b)
            n = int(b, 2)
            if "unsigned" in ctype or ctype in ("_Bool", "char") and False:
                return "%dULL" % n
            if n >= 1 << (w - 1) and not ("unsigned" in ctype or ctype == "_Bool"):
                n -= 1 << w
            return "((%s)%dLL)" % (ctype, n) if n < 0 else "((%s)%dULL)" % (ctype, n)
        return str(d)
    if nm == "float":
        b = v.get("binary")
        if b is not None:
            n = int(b, 2)
            if len(b) == 32:
                return "sbv_f32_from_bits(%dU)" % n
            return "sbv_f64_from_bits(%dULL)" % n
        return str(d)
    if nm == "pointer":
        return "0"
    return str(d)


def native_expr(e):
    return re.sub(r"\bRET\b", "__ret", e)


def build_replay(c, vals, path):
    """emit native replay C file that constructs the state from `vals`, calls the REAL code through the root shim, and evaluates the ensures clauses"""
    u = c.unit
    root = c.fn.root
    if root is None and c.fn.j.get("root"):
        root = c.fn  # the contract is on a lemma root itself
    if root is None:
        # find a root forwarding to this function
        for f in u.functions():
            if f.j.get("root") and f.j.get("forwards_to") == c.fn.mangled:
                root = f
    if root is None:
        raise ToolError("no root wrapper forwards to %s: cannot replay natively" % c.fn.pretty)
    types = u.text[u.text.index("/*@TYPES_BEGIN@*/"): u.text.index("/*@TYPES_END@*/")]
    L = ["#include <stdio.h>", "#include <stdlib.h>", "#include <string.h>", "#include <setjmp.h>", '#include "%s"' % os.path.join(SPEC_DIR, "spec.h"), types]
    L.append("static float sbv_f32_from_bits(uint32_t b){ float f; memcpy(&f,&b,4); return f; }")
    L.append("static double sbv_f64_from_bits(uint64_t b){ double f; memcpy(&f,&b,8); return f; }")
    L.append("extern jmp_buf sbv_jmp; extern int sbv_handler_hits; extern const char* sbv_handler_expr;")
    L.append("unsigned long sbv_steps; int sbv_canary;")
    L.append("void shim_%s(void* ret, void** args);" % root.mangled)
    nbuf = 0
    for it in c.pre:
        if isinstance(it, BUF):
            L.append("char sbv_w%d[%d];" % (nbuf, WIT_BYTES))
            for j in range(len(it.pins)):
                L.append("char sbv_pin%d_%d;" % (nbuf, j))
            nbuf += 1
    for ct, g in c.ghosts:
        L.append("%s %s;" % (ct, g))
    L.append("int main(void) {")
    params = c.fn.params
    for i, p in enumerate(params):
        L.append("  %s %s; memset(&%s, 0, sizeof %s);" % (p["ctype"], p["name"], p["name"], p["name"]))
    # scalars from the witness
    def val(name, ct, default="0"):
        v = vals.get(name)
        return c_literal(v, ct) if v is not None else default
    for ct, g in c.ghosts:
        L.append("  %s = %s;" % (g, val(g, ct)))
    for k in range(nbuf):
        for i in range(WIT_BYTES):
            L.append("  sbv_w%d[%d] = %s;" % (k, i, val("sbv_w%d[%d]" % (k, i), "char")))
    for kk, it in enumerate([x for x in c.pre if isinstance(x, BUF)]):
        for j in range(len(it.pins)):
            L.append("  sbv_pin%d_%d = %s;" % (kk, j, val("sbv_pin%d_%d" % (kk, j), "char")))
    for i, p in enumerate(params):
        ct = p["ctype"].strip()
        if ct.endswith("*"):
            continue
        if ct.startswith("struct "):
            for pth, lt in u.scalar_leaves(ct):
                L.append("  %s%s = %s;" % (p["name"], pth, val("a%d%s" % (i, pth), lt)))
        else:
            L.append("  %s = %s;" % (p["name"], val("a%d" % i, ct)))
    k = 0
    for it in c.pre:
        if isinstance(it, BUF):
            L.append("  { size_t n_ = (size_t)(%s); if(n_ > (1UL<<26)) { printf(\"REPLAY-SKIP buffer too large\\n\"); return 3; } char* b_ = malloc(n_ ? n_ : 1); if(!n_) { b_ = (char*)realloc(b_, 1); } "
                     "for(size_t i_ = 0; i_ < n_; i_++) b_[i_] = i_ < %d ? sbv_w%d[i_] : 0; "
                     "%s if(!n_) { free(b_); b_ = malloc(0); } %s = (%s)b_; }" % (it.length, WIT_BYTES, k, " ".join("if((size_t)(%s) < n_) b_[%s] = sbv_pin%d_%d;" % (px, px, k, j) for j, px in enumerate(it.pins)), it.ptr, it.cast))
            k += 1
        elif isinstance(it, OBJ):
            L.append("  %s = calloc(1, sizeof(*(%s)));" % (it.ptr, it.ptr))
            for pth, lt in u.scalar_leaves(it.rec):
                L.append("  (%s)->%s = %s;" % (it.ptr, pth[1:], val(ghost_name(it.ptr, pth), lt)))
        elif isinstance(it, SET):
            L.append("  %s = (%s);" % (it.lv, it.expr))
        elif isinstance(it, INRANGE):
            L.append("  %s = (%s) + (%s);" % (it.lv, it.lo, it.off))
        elif isinstance(it, ASSUME):
            L.append("  if(!(%s)) { printf(\"REPLAY-PRECONDITION-FALSE %%s\\n\", %s); return 3; }" % (it.cond, json.dumps(it.cond)))
    # OLD snapshots
    posts = []
    olds = []
    for name, e in c.post:
        e2 = native_expr(e)
        while True:
            m = re.search(r"\bOLD\(", e2)
            if not m:
                break
            j = _balanced(e2, m.end() - 1)
            inner = e2[m.end(): j - 1]
            olds.append(inner)
            e2 = e2[: m.start()] + "__old%d" % (len(olds) - 1) + e2[j:]
        posts.append((name, e2))
    for i, inner in enumerate(olds):
        L.append("  __typeof__(%s) __old%d = (%s);" % (inner, i, inner))
    retv = c.fn.ret.strip()
    if retv != "void":
        L.append("  %s __ret; memset(&__ret, 0, sizeof __ret);" % retv)
    L.append("  void* args_[%d];" % max(1, len(params)))
    for i, p in enumerate(params):
        if p["ref"] or False:
            L.append("  args_[%d] = (void*)%s;" % (i, p["name"]))
        else:
            L.append("  args_[%d] = (void*)&%s;" % (i, p["name"]))
    L.append("  int hit_ = 0;")
    L.append("  if(setjmp(sbv_jmp) == 0) shim_%s(%s, args_); else hit_ = 1;" % (root.mangled, "&__ret" if retv != "void" else "0"))
    if c.mode == "N":
        L.append('  if(hit_) { printf("REPLAY-FAIL handler invoked: %s\\n", sbv_handler_expr); return 1; }')
    elif c.mode == "R":
        L.append('  if(hit_) { printf("REPLAY-PASS handler invoked: %s\\n", sbv_handler_expr); return 0; }')
        L.append('  printf("REPLAY-FAIL returned normally without invoking the handler\\n"); return 1;')
    else:
        L.append('  if(hit_) { printf("REPLAY-EXCLUDED handler invoked: %s\\n", sbv_handler_expr); return 3; }')
    L.append("  int bad_ = 0;")
    for name, e2 in posts:
        L.append("  if(!(%s)) { printf(\"REPLAY-FAIL clause %s\\n\"); bad_ = 1; }" % (e2, name))
    L.append('  if(!bad_) printf("REPLAY-PASS all clauses hold on this input\\n");')
    L.append("  return bad_;")
    L.append("}")
    open(path, "w").write("\n".join(L) + "\n")
    return root


def native_replay(c, vals, wd):
    """returns (outcome, text) with outcome in reproduced | not-reproduced | error"""
    u = c.unit
    try:
        rp = os.path.join(wd, "replay.c")
        root = build_replay(c, vals, rp)
        shim_o = os.path.join(u.dir, "shims.asan.o")
        if not os.path.exists(shim_o):
            hs = os.path.join(u.dir, "shims_main.cpp")
            with open(hs, "w") as f:
                f.write('#include "%s"\n' % u.driver)
                f.write('#include "%s"\n' % os.path.join(u.dir, "shims.cpp"))
                f.write('extern "C" { jmp_buf sbv_jmp; int sbv_handler_hits; const char* sbv_handler_expr; }\n')
                if u.asserts == "checked":
                    f.write("namespace sbepp { [[noreturn]] void assertion_failed(char const* e, char const*, char const*, long) { sbv_handler_hits++; sbv_handler_expr = e; longjmp(sbv_jmp, 1); } }\n")
            std = u.std if u.std in ("c++17", "c++20", "c++2b") else "c++17"
            flags = [x for x in u.flags() if not x.startswith("-std=")]
            p = sh(["g++", "-std=" + std, "-g", "-O0", "-w", "-fsanitize=address,undefined", "-fno-sanitize-recover=undefined", "-I" + SPEC_DIR] + flags + ["-c", hs, "-o", shim_o + ".tmp%d" % os.getpid()], check=False, timeout=900)
            if p.returncode != 0:
                return "error", "shim compile failed: " + p.stdout[-2000:]
            os.replace(shim_o + ".tmp%d" % os.getpid(), shim_o)
        exe = os.path.join(wd, "replay")
        p = sh(["gcc", "-std=gnu11", "-g", "-O0", "-w", "-fsanitize=address,undefined", "-c", rp, "-o", os.path.join(wd, "replay.o")], check=False, timeout=300)
        if p.returncode != 0:
            return "error", "replay compile failed: " + p.stdout[-2000:]
        p = sh(["g++", "-fsanitize=address,undefined", os.path.join(wd, "replay.o"), shim_o, "-o", exe], check=False, timeout=300)
        if p.returncode != 0:
            return "error", "replay link failed: " + p.stdout[-2000:]
        env = dict(os.environ, ASAN_OPTIONS="detect_leaks=0:abort_on_error=0:exitcode=1", UBSAN_OPTIONS="halt_on_error=1:exitcode=1:print_stacktrace=0")
        p = sh([exe], check=False, timeout=120, env=env)
        full = p.stdout
        out = full if len(full) <= 4000 else full[:2500] + "\n...\n" + full[-1200:]
        if "ERROR: AddressSanitizer" in full and re.search(r"#0 0x[0-9a-f]+ in main [^\n]*replay\.c", full):
            return "error", "the specification itself reads outside the buffer on this input (contract bug, not a verdict):\n" + out[:1500]
        if "REPLAY-FAIL" in full or "ERROR: AddressSanitizer" in full or "runtime error:" in full:
            return "reproduced", out
        return "not-reproduced", out
    except ToolError as e:
        return "error", str(e)
    except subprocess.TimeoutExpired:
        return "error", "replay timeout"


def run_all(contracts, tier="quick", jobs=None):
    jobs = jobs or int(os.environ.get("SBV_JOBS", "14"))
    results = []
    with concurrent.futures.ThreadPoolExecutor(max_workers=jobs) as ex:
        futs = {ex.submit(run_contract, c, tier): c for c in contracts}
        for f in concurrent.futures.as_completed(futs):
            results.append(f.result())
    order = {id(c): i for i, c in enumerate(contracts)}
    results.sort(key=lambda r: order[id(r.c)])
    return results
