"""./check <prop> --replay <file>: re-run a recorded counterexample against the REAL code of /repo's current tree.

The replay file (written by runner.check_property on a violation) names the contract and carries the verifier's witness.
The contract is looked up again in the registry (so the ensures text is the current one), the unit is rebuilt from the
current tree, the replay program is regenerated and executed natively under ASan+UBSan.
exit 1 + VIOLATION line: the clause fails / a sanitizer fires in the code under test on this input
exit 0: the input no longer violates the contract (e.g. after a repair)
exit 2: the contract cannot be found or the replay cannot be built"""
import json
import os
import sys

from .build import ToolError
from . import engine


def replay_file(path):
    doc = json.load(open(path))
    prop = doc["property"]
    from .registry import contracts_for
    found = None
    for tier in (doc.get("tier", "quick"), "thorough"):
        contracts, _ = contracts_for(prop, tier)
        for c in contracts:
            if c.ident() == doc["contract"]:
                found = c
                break
        if found:
            break
    if found is None:
        raise ToolError("contract %s of the replay file is not registered for %s any more" % (doc["contract"], prop))
    vals = doc.get("witness")
    if vals is None:  # older files: rebuild value records from data/binary
        vals = {}
        for k, d in (doc.get("inputs") or {}).items():
            b = (doc.get("inputs_binary") or {}).get(k)
            vals[k] = {"data": d, "binary": b, "name": "integer" if b is not None else None}
    wd = os.path.join(engine.WORK, "%d" % os.getpid(), "replay")
    os.makedirs(wd, exist_ok=True)
    if not vals:
        print("replay file carries no input (the verifier gave no counterexample); failed obligations: %s" % [o.get("clause") or o.get("description") for o in doc.get("failed_obligations", [])])
        print("verifier output: %s" % json.dumps(doc.get("verifier_output", []))[:2000])
        # without an input the only way to re-decide is the obligation itself
        from .engine import run_contract
        r = run_contract(found, doc.get("tier", "quick"))
        bad = [p for p in r.props if p["status"] == "FAILURE" and not p.get("canary")]
        if r.status == "failed" and bad:
            print("VIOLATION property=%s replay=%s no-failing-input-found" % (prop, path))
            return 1
        return 0 if r.status == "ok" else 2
    outcome, text = engine.native_replay(found, vals, wd)
    sys.stdout.write(text + ("\n" if not text.endswith("\n") else ""))
    print("replay outcome: %s" % outcome)
    if outcome == "reproduced":
        print("VIOLATION property=%s replay=%s" % (prop, path))
        return 1
    if outcome == "error":
        return 2
    return 0
