"""Helpers to talk about sbepp view records in contracts (field access by ordinal, never by private name)."""
from .engine import BUF, SET, ASSUME, INRANGE

OFFMAX = "(1UL << 40)"  # schema-constant offsets are far below this; keeps offset+size from wrapping (assumption, listed in evidence)


class V:
    """a view-typed C expression `expr` of lowered record `rec` in unit u"""

    def __init__(self, u, expr, rec):
        self.u, self.expr, self.rec = u, expr, rec
        p = u.path_to(rec, "sbepp::detail::byte_range")
        self.br = expr + p
        r = u.rec(rec)
        # walk to the byte_range record
        cur = r
        for part in [x for x in p.split(".") if x]:
            nxt = [b for b in cur["bases"] if b["field"] == part][0]
            cur = u.rec(nxt["cname"])
        self.brrec = cur
        self.begin = self.br + "." + cur["fields"][0]["name"]
        self.checked = len(cur["fields"]) > 1
        self.end = self.br + "." + cur["fields"][1]["name"] if self.checked else None

    def wf(self, n="sbv_n", pins=()):
        """well-formed, non-null view over a fresh buffer of exactly n bytes"""
        it = [BUF(self.begin, n, pins=pins)]
        if self.checked:
            it.append(SET(self.end, "%s + %s" % (self.begin, n)))
        return it

    def base_field(self, qual_prefix, k):
        """k-th field of the (transitive) base class whose qualified name starts with qual_prefix"""
        u = self.u
        p = u.path_to(self.rec, qual_prefix)
        cur = u.rec(self.rec)
        for part in [x for x in p.split(".") if x]:
            nxt = [b for b in cur["bases"] if b["field"] == part][0]
            cur = u.rec(nxt["cname"])
        return self.expr + p + "." + cur["fields"][k]["name"]

    def block_length(self):
        return self.base_field("sbepp::detail::entry_base", 0)

    def field(self, k):
        """k-th own field of the most derived record (e.g. entry_base::block_length)"""
        return self.expr + "." + self.u.rec(self.rec)["fields"][k]["name"]


def same_view(a_begin, a_end, b_begin, b_end):
    return "(%s == %s && %s == %s)" % (a_begin, b_begin, a_end, b_end)
