"""Generated accessors of every corpus schema against the XML oracle: random-access getters/setters of every level
(messages, group entries, composites), positions of dynamic members taken from wire block lengths."""
import os

from ..build import Unit, ToolError, ensure_generated, VERIF, CACHE
from ..engine import Contract, BUF, OBJ, SET, ASSUME
from ..gendriver import generate, Gen
from ..oracle import Schema, flat
from ..sbe import PRIMS, bits, load
from ..views import V
from .. import corpus

SERVES = {"C01", "C02", "C03", "C10", "C11", "C19"}
GH_N = [("unsigned long", "sbv_n")]
EXPLANATION = "Generated-code obligations are translation validation per corpus schema: the contract of each generated accessor is computed from the XML by sbv/oracle.py."


def hdr_field(sch, enc, name, base):
    """C expression reading scalar member `name` of header-like composite `enc` located at pointer expression `base`"""
    off, prim = sch.header_member(enc, name)
    return load("%s + %d" % (base, off), PRIMS[prim]["size"], 1 if sch.big_endian else 0)


def level_geometry(sch, li, vw):
    """(level_start_expr, wire_block_length_expr, base offset of fields relative to view begin)"""
    if li.kind == "message":
        hs = sch.header.size
        return "%s + %d" % (vw.begin, hs), hdr_field(sch, sch.header, "blockLength", vw.begin), hs
    if li.kind == "entry":
        return vw.begin, "(unsigned long)" + vw.block_length(), 0
    return vw.begin, None, 0


def member_size_expr(sch, m, at):
    """wire size of dynamic member m (flat group or data) that starts at pointer expression `at`; None for nested groups"""
    if m["mkind"] == "data":
        e = m["enc"]
        loff, lprim = sch.header_member(e, "length")
        return "(%d + %s)" % (PRIMS[lprim]["size"], hdr_field(sch, e, "length", at))
    g = m["level"]
    if not flat(g):
        return None
    dim = g.dimension
    return "(%d + %s * %s)" % (dim.size, hdr_field(sch, dim, "numInGroup", at), hdr_field(sch, dim, "blockLength", at))


def contracts_for_schema(cs, tier):
    sch, g, u = cs.schema, cs.gen, cs.unit
    be = 1 if sch.big_endian else 0
    out = []
    for li in g.levels:
        wm = Gen.get_members(li)
        if not wm:
            continue
        f = u.root("r_%s_get" % li.ident)
        vp = f.p[0]
        rec = f.params[0]["rec"]
        vw = V(u, "(*%s)" % vp, rec)
        lstart, wbl, base = level_geometry(sch, li, vw)
        post = []
        need = 0
        prev_end = None     # C expression: pointer where the next dynamic member starts
        exact = True
        extra_pre = []
        for i, m in wm:
            if m["mkind"] in ("field", "member"):
                e = m["enc"]
                A = base + m["offset"]
                if e.kind in ("scalar", "enum", "set"):
                    w = PRIMS[e.prim]["size"]
                    post.append(("%s-decodes-schema-offset-%d" % (m["name"], A), "RET.v%d == %s" % (i, load("%s + %d" % (vw.begin, A), w, be))))
                    need = max(need, A + w)
                else:
                    post.append(("%s-view-at-schema-offset-%d" % (m["name"], A), "RET.v%d.begin == %s + %d && RET.v%d.end == %s" % (i, vw.begin, A, i, vw.end)))
                    need = max(need, A)
            else:
                if prev_end is None:
                    start = "%s + %s" % (lstart, wbl)
                    nm = "%s-first-dynamic-member-after-wire-block" % m["name"]
                else:
                    start = prev_end
                    nm = "%s-starts-where-previous-member-ends" % m["name"]
                if start is not None:
                    post.append((nm, "RET.v%d.begin == %s && RET.v%d.end == %s" % (i, start, i, vw.end)))
                    sz = member_size_expr(sch, m, "RET.v%d.begin" % i)
                    prev_end = None if sz is None else "RET.v%d.begin + %s" % (i, sz)
                    if sz is None:
                        break  # nested group is the last member probed by random access (see Gen.get_members)
        checked_members = {p[0].split("-")[0] for p in post}
        if need:
            post.insert(0, ("all-fixed-members-in-bounds-or-reported", "%d <= sbv_n" % need))
        pre = [OBJ(vp, rec)] + vw.wf()
        # members after a nested group are still *called* by the root; bound their entry loops (position not asserted here)
        bounded = not exact
        kind = "unbounded"
        unwind = None
        if bounded:
            kind = "bounded(nested numInGroup<=1)"
            unwind = 3
        nm = "%s:%s::get*" % (cs.name, li.ident)
        has_product = any("*" in e for _, e in post)
        out.append(Contract(f, nm, props={"C02", "C03", "C10", "C11"}, ghosts=GH_N, mode="S", pre=pre + extra_pre, post=post, assigns=[], unwind=unwind, kind=kind,
                            backends=["kissat", "z3", "cvc5", "minisat"] if has_product else None,
                            optional=sum(1 for _, m_ in wm if m_["mkind"] in ("group", "data")) >= 4,
                            note="random-access getters of level %s (%s)" % (li.ident, li.kind)))
        if li.ident in getattr(g, "bytag_roots", []):
            fb = u.root("r_%s_get_bytag" % li.ident)
            fpost = [(n_, e_.replace("RET.", "RET.")) for n_, e_ in post if "-decodes-schema-offset-" in n_ or "-view-at-schema-offset-" in n_ or n_ == "all-fixed-members-in-bounds-or-reported"]
            vpb = fb.p[0]
            out.append(Contract(fb, "%s:%s::get_by_tag*" % (cs.name, li.ident), props={"C19", "C02"}, ghosts=GH_N, mode="S", pre=[OBJ(vpb, rec)] + V(u, "(*%s)" % vpb, rec).wf(),
                                post=[(n_, e_.replace("(*%s)" % vp, "(*%s)" % vpb)) for n_, e_ in fpost], assigns=[], note="get_by_tag of every field of level %s equals the named getter's contract" % li.ident))
        # ---- setters
        sm = [(i, m) for i, m in Gen.wire_members(li) if m["mkind"] in ("field", "member") and m["enc"].kind in ("scalar", "enum", "set")]
        if not sm:
            continue
        f = u.root("r_%s_set" % li.ident)
        vp, xs = f.p[0], f.p[1]
        rec = f.params[0]["rec"]
        vw = V(u, "(*%s)" % vp, rec)
        post = []
        frame = []
        need = 0
        for i, m in sm:
            e = m["enc"]
            A = base + m["offset"]
            w = PRIMS[e.prim]["size"]
            need = max(need, A + w)
            for k in range(w):
                post.append(("%s-byte-%d-at-%d" % (m["name"], k, A + k), "(uint8_t)%s[%d] == SPEC_BYTE(%s, %d, %d, %d)" % (vw.begin, A + k, bits(e.prim, "%s.v%d" % (xs, i)), w, be, k)))
            frame.append("__CPROVER_object_upto(%s + %d, %d)" % (vw.begin, A, w))
        pre = [OBJ(vp, rec)] + vw.wf() + [ASSUME("%d <= sbv_n" % need)]
        out.append(Contract(f, "%s:%s::set*" % (cs.name, li.ident), props={"C01", "C10"}, ghosts=GH_N, mode="N", pre=pre, post=post, assigns=frame,
                            note="setters of level %s write exactly the member bytes; handler unreachable when the block fits" % li.ident))
        if li.ident in getattr(g, "set_bytag_roots", []) and len(sm) == len([1 for i_, m_ in sm if m_["mkind"] == "field"]):
            fb = u.root("r_%s_set_bytag" % li.ident)
            vpb, xsb = fb.p[0], fb.p[1]
            ren = lambda e_: e_.replace("(*%s)" % vp, "(*%s)" % vpb).replace("%s.v" % xs, "%s.v" % xsb)
            out.append(Contract(fb, "%s:%s::set_by_tag*" % (cs.name, li.ident), props={"C19", "C01"}, ghosts=GH_N, mode="N", pre=[OBJ(vpb, rec)] + V(u, "(*%s)" % vpb, rec).wf() + [ASSUME("%d <= sbv_n" % need)],
                                post=[(n_, ren(e_)) for n_, e_ in post], assigns=[ren(x_) for x_ in frame], note="set_by_tag of every field of level %s: the named setters' contract" % li.ident))
    return out


def contracts(tier):
    out = []
    for cs in corpus.schemas(tier):
        out += contracts_for_schema(cs, tier)
    return out
