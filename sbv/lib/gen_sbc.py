"""size_bytes_checked over NESTED groups (C06), decided modularly: one contract per instantiation of the visitor's
on_group<G> / on_entry<E> (sbepp.hpp size_bytes_checked_visitor), entry loops closed by loop contracts, inner groups used through
their contracts (a caller is checked against the callee's contract, not its body).

The carried invariant is "bytes consumed == cursor advance":   valid  ==>  offset(cursor) + remaining size == n
together with "the group block length the visitor validates entries against is the one of the enclosing group" (restored by every
on_group). It is linear, so it is inductive over entries without quantifiers, for every numInGroup and every nesting depth.
What it gives: whenever size_bytes_checked answers valid, every byte the traversal consumed lies inside the n bytes and the reported
size is the position the traversal reached; no byte at offset >= n is read on any path (buffer object of exactly n bytes, unchecked
build). What it does not give: the converse direction (invalid only if the structure does not fit) below the message level."""
import re

from ..build import ToolError
from ..engine import Contract, BUF, OBJ, SET, ASSUME, INRANGE, Loop, Pre
from ..sbe import PRIMS
from ..views import V
from .. import corpus
from .gen_access import hdr_field

SERVES = {"C06", "C03"}
GH = [("char *", "sbv_base"), ("unsigned long", "sbv_n")]
OFF = "__CPROVER_POINTER_OFFSET"
EXPLANATION = ""
ASSUMPTIONS = ["size_bytes_checked over nested groups: soundness direction only (valid => consumed bytes lie inside n and equal the cursor advance; group block length restored); "
               "entries are assumed to carry a wire block length >= the compiled one (the other case is the known finding sbc-reads-fields-beyond-short-wire-block)"]


def fn_one(u, pat, extra=None):
    r = [f for f in u.functions() if f.has_body and re.search(pat, f.pretty) and (extra is None or extra(f))]
    if len(r) != 1:
        raise ToolError("gen_sbc: %r matches %d functions in %s: %s" % (pat, len(r), u.name, [x.pretty for x in r][:4]))
    return r[0]


def contracts(tier):
    out = []
    for cs in corpus.schemas(tier, asserts="unchecked"):
        if not getattr(cs.gen, "sbc_nested_roots", None):
            continue
        out += schema_contracts(cs, tier)
    return out


def schema_contracts(cs, tier):
    sch, g, u = cs.schema, cs.gen, cs.unit
    pkg = g.pkg
    out = []
    done = {}

    def in_range(p):
        return "__CPROVER_pointer_in_range_dfcc(sbv_base, %s, sbv_base + sbv_n)" % p

    def group_contracts(L):
        """(on_group contract, on_entry contract) of group level L; inner groups first"""
        key = tuple(L.path)
        if key in done:
            return done[key]
        inner = [group_contracts(gl) for gl in L.groups]
        name = L.name
        esc = re.escape
        f_grp = fn_one(u, r"size_bytes_checked_visitor::on_group<%s::detail::messages::%s<char>," % (esc(pkg), esc(name)))
        f_ent = fn_one(u, r"size_bytes_checked_visitor::on_entry<%s::detail::messages::%s_entry<char>," % (esc(pkg), esc(name)))
        f_loop = fn_one(u, r"_group_base<char, %s::detail::messages::%s_entry<char>,.*::operator\(\)<sbepp::detail::size_bytes_checked_visitor, sbepp::cursor<char>>" % (esc(pkg), esc(name)),
                        extra=lambda f: any("visit_children_tag" in (p.get("rec") or "") or "visit_children_tag" in p["ctype"] for p in f.params))
        dim = L.dimension
        HS = dim.size
        BL = L.block_length
        has_data = bool(L.data) or any(x.data for x in all_groups(L))
        tag = " [levels with <data>: known finding]" if has_data else ""
        # ---------------- on_entry<E>(self, e, c)
        f = f_ent
        sp, ep, cp = f.p[0], f.p[1], f.p[2]
        vrec, erec, crec = f.params[0]["rec"], f.params[1]["rec"], f.params[2]["rec"]
        vsize, vvalid, vgbl = ["%s->%s" % (sp, u.field(vrec, k)) for k in range(3)]
        ev = V(u, ep, erec)
        cptr = "%s->%s" % (cp, u.field(crec, 0))
        ebl = "(unsigned long)" + ev.block_length()
        pre = [BUF("sbv_base", "sbv_n"), OBJ(sp, vrec), ASSUME("%s == 1" % vvalid), ASSUME(in_range(ev.begin)), OBJ(cp, crec), ASSUME(in_range(cptr)), ASSUME("%s == %s" % (cptr, ev.begin)),
               ASSUME("%s <= sbv_n && %s(%s) + %s == sbv_n" % (vsize, OFF, ev.begin, vsize)), ASSUME("%s == %s" % (ebl, vgbl)), ASSUME("%s >= %dUL" % (ebl, BL))]
        post = [("group-block-length-unchanged", "%s == OLD(%s)" % (vgbl, vgbl)), ("valid-is-0-or-1", "%s == 0 || %s == 1" % (vvalid, vvalid)), ("returns-true-exactly-when-invalid", "RET == (_Bool)!%s" % vvalid),
                ("valid-means-consumed-bytes-equal-cursor-advance", "!%s || (__CPROVER_same_object(%s, sbv_base) && %s(%s) + %s == sbv_n)" % (vvalid, cptr, OFF, cptr, vsize)),
                ("remaining-size-never-grows", "%s <= OLD(%s)" % (vsize, vsize)),
                ("entry-block-that-does-not-fit-is-invalid", "OLD(%s) >= %s || !%s" % (vsize, ebl, vvalid))]
        benign = pre[-1]
        pre = pre[:-1]
        # general form (any wire block length): the one callers rely on; on the unchanged tree its pointer checks fail for entries whose wire block is
        # shorter than the compiled one (known finding sbc-reads-fields-beyond-short-wire-block), its clauses hold
        c_ent = Contract(f, "%s:%s::size_bytes_checked on_entry [any wire block]%s" % (cs.name, "_".join(L.path), tag), props={"C06"}, ghosts=GH, mode="S", pre=pre, post=post,
                         assigns=["*%s" % sp, cptr], replaces=[c for c, _ in inner], note="nested groups through their on_group contracts")
        c_ent_b = Contract(f, "%s:%s::size_bytes_checked on_entry [wire block >= compiled block]%s" % (cs.name, "_".join(L.path), tag), props={"C06"}, ghosts=GH, mode="S", pre=pre + [benign], post=post,
                           assigns=["*%s" % sp, cptr], replaces=[c for c, _ in inner], note="nested groups through their on_group contracts")
        out.append(c_ent_b)
        # ---------------- on_group<G>(self, g, c, tag): entry loop in flat/nested_group_base::operator()(visit_children_tag, v, c)
        f = f_grp
        sp, gp, cp = f.p[0], f.p[1], f.p[2]
        vrec, grec, crec = f.params[0]["rec"], f.params[1]["rec"], f.params[2]["rec"]
        vsize, vvalid, vgbl = ["%s->%s" % (sp, u.field(vrec, k)) for k in range(3)]
        gv = V(u, gp, grec)
        cptr = "%s->%s" % (cp, u.field(crec, 0))
        goff = "%s(%s)" % (OFF, gv.begin)
        fits = "(%s <= sbv_n && %d <= sbv_n - %s)" % (goff, HS, goff)
        wbl = hdr_field(sch, dim, "blockLength", gv.begin)
        pre = [BUF("sbv_base", "sbv_n"), OBJ(sp, vrec), ASSUME("%s == 1" % vvalid), ASSUME(in_range(gv.begin)), OBJ(cp, crec),
               ASSUME("!%s || (%s && %s == %s + %d)" % (fits, in_range(cptr), cptr, gv.begin, HS)),
               ASSUME("%s <= sbv_n && %s + %s == sbv_n" % (vsize, goff, vsize))]
        post = [("group-block-length-restored", "%s == OLD(%s)" % (vgbl, vgbl)), ("valid-is-0-or-1", "%s == 0 || %s == 1" % (vvalid, vvalid)), ("returns-true-exactly-when-invalid", "RET == (_Bool)!%s" % vvalid),
                ("valid-means-consumed-bytes-equal-cursor-advance", "!%s || (__CPROVER_same_object(%s, sbv_base) && %s(%s) + %s == sbv_n)" % (vvalid, cptr, OFF, cptr, vsize)),
                ("remaining-size-never-grows", "%s <= OLD(%s)" % (vsize, vsize)),
                ("header-that-does-not-fit-is-invalid", "%s || !%s" % (fits, vvalid))]
        # loop contract
        lf = f_loop
        lself, lv, lc = lf.p[0], lf.p[2], lf.p[3]
        lvrec, lcrec = lf.params[2]["rec"], lf.params[3]["rec"]
        lsize, lvalid, lgbl = ["%s->%s" % (lv, u.field(lvrec, k)) for k in range(3)]
        lptr = "%s->%s" % (lc, u.field(lcrec, 0))
        gself = V(u, "(*%s)" % lself, lf.params[0]["rec"])
        itrec = iterator_rec(u, lf)
        idx, itbl = u.field(itrec, 0), u.field(itrec, 2)
        inv = ["%s == 1" % lvalid,
               "__CPROVER_same_object(%s, sbv_base) && %s <= sbv_n && %s(%s) + %s == sbv_n" % (lptr, lsize, OFF, lptr, lsize),
               "%s == (unsigned long)__begin0.%s" % (lgbl, itbl),
               "%s <= __CPROVER_loop_entry(%s)" % (lsize, lsize),
               "__begin0.%s <= __end0.%s" % (idx, idx)]
        loop = Loop(assigns=["__begin0.%s" % idx, "*%s" % lv, lptr], invariants=inv, decreases="(unsigned long)__end0.%s - (unsigned long)__begin0.%s" % (idx, idx))
        c_grp = Contract(f, "%s:%s::size_bytes_checked on_group%s" % (cs.name, "_".join(L.path), tag), props={"C06"}, ghosts=GH, mode="S", pre=pre, post=post,
                         assigns=["*%s" % sp, cptr], replaces=[c_ent], loops={(lf.mangled, 0): loop}, note="entry loop by loop contract (any numInGroup); entries through the on_entry contract")
        # the property's "work bounded by a function of n alone": the entry loop runs numInGroup times, also when every entry has wire
        # blockLength 0 -- exhibited as known finding sbc-work-not-bounded-by-n (reproduced natively: tools/findings/sbc_work.cpp)
        inv_w = inv + ["sbv_steps == __CPROVER_loop_entry(sbv_steps) + ((unsigned long)__begin0.%s - (unsigned long)__CPROVER_loop_entry(__begin0.%s))" % (idx, idx)]
        loop_w = Loop(assigns=["__begin0.%s" % idx, "*%s" % lv, lptr], invariants=inv_w, decreases="(unsigned long)__end0.%s - (unsigned long)__begin0.%s" % (idx, idx))
        c_grp_w = Contract(f, "%s:%s::size_bytes_checked on_group [work bounded by n]" % (cs.name, "_".join(L.path)), props={"C06"}, ghosts=GH, mode="S", pre=pre,
                           post=[("entry-iterations-bounded-by-n", "sbv_steps - OLD(sbv_steps) <= sbv_n")], assigns=["*%s" % sp, cptr], replaces=[c_ent], loops={(lf.mangled, 0): loop_w},
                           note="counts the iterations of this group's entry loop only")
        done[key] = (c_grp, c_ent)
        out.append(c_ent)
        out.append(c_grp)
        if not L.groups and not L.data and len(L.path) == 2:
            out.append(c_grp_w)  # one representative per message is enough to exhibit the finding: flat top-level groups
        return done[key]

    by_ident = {li.ident: li for li in g.levels}
    for idn in g.sbc_nested_roots:
        li = by_ident[idn]
        L = li.origin
        if any(not (gl.fields or gl.groups or gl.data) for gl in all_groups(L)):
            # a group whose entries have no members: the generated entry constructor advances the cursor itself, before on_entry validates the
            # block; the precondition "cursor at the entry start" of the contracts below does not describe that protocol (not covered)
            continue
        tops = [group_contracts(gl) for gl in L.groups]
        # message level: size_bytes_checked(view, n) with the top-level groups through their contracts
        f = u.root("r_%s_sbc" % idn)
        vp, n = f.p[0], f.p[1]
        rec = f.params[0]["rec"]
        vw = V(u, "(*%s)" % vp, rec)
        hs = sch.header.size
        wbl = hdr_field(sch, sch.header, "blockLength", vw.begin)
        pre = [BUF("sbv_base", "sbv_n"), OBJ(vp, rec), ASSUME("__CPROVER_pointer_in_range_dfcc(sbv_base, %s, sbv_base + sbv_n)" % vw.begin), ASSUME("%s == sbv_base" % vw.begin), ASSUME("%s == sbv_n" % n),
               ASSUME("sbv_n < %d || (unsigned long)%s >= %dUL" % (hs, wbl, L.block_length))]
        has_data = bool(L.data) or any(x.data for x in all_groups(L))
        tag = " [levels with <data>: known finding]" if has_data else ""
        post = [("valid-size-lies-inside-the-buffer", "!RET.valid || RET.size <= sbv_n"), ("zero-size-when-invalid", "RET.valid || RET.size == 0"),
                ("header-or-root-block-that-does-not-fit-is-invalid", "(sbv_n >= %d && (unsigned long)%s <= sbv_n - %d) || !RET.valid" % (hs, wbl, hs)),
                ("valid-size-covers-header-and-root-block", "!RET.valid || RET.size >= %d + (unsigned long)%s" % (hs, wbl))]
        out.append(Contract(f, "%s:%s::size_bytes_checked [nested groups, modular]%s" % (cs.name, idn, tag), props={"C06"}, ghosts=GH, mode="S", pre=pre, post=post, assigns=[],
                            replaces=[c for c, _ in tops], note="top-level groups through their on_group contracts"))
    return out


def all_groups(L):
    r = []
    for gl in L.groups:
        r.append(gl)
        r += all_groups(gl)
    return r


def iterator_rec(u, lf):
    """record of the input_iterator the entry loop runs on (type of __begin0): found through the lowered text of the loop function"""
    m = re.search(r"/\*@BEGIN %s@\*/\n(.*?)/\*@END %s@\*/" % (lf.mangled, lf.mangled), u.text, re.S)
    mm = re.search(r"struct (\w+) __begin0;", m.group(1))
    if not mm:
        raise ToolError("gen_sbc: no __begin0 in " + lf.pretty)
    return mm.group(1)
