"""Generated code beyond plain accessors, per corpus schema: cursor traversals of every level with every wrapper kind (C04/C03),
level sizes (C05), header fillers (C17), traits and type constants (C18/C16)."""
from ..build import ToolError
from ..engine import Contract, BUF, OBJ, SET, ASSUME
from ..gendriver import Gen
from ..oracle import flat
from ..sbe import PRIMS, bits, load
from ..views import V
from .. import corpus
from .gen_access import hdr_field, level_geometry

SERVES = {"C02", "C03", "C04", "C05", "C06", "C11", "C15", "C16", "C17", "C18", "C19", "C01", "C10"}
GH_N = [("unsigned long", "sbv_n")]
SMALL = 1 << 16
PB = ["kissat", "z3", "cvc5", "minisat"]
EXPLANATION = "Generated-code obligations are translation validation per corpus schema: expected offsets, sizes, header values and trait values are computed from the XML by sbv/oracle.py."


def cstr_eq(expr, text):
    """char-wise equality of C string expression with python text (no loops, no strcmp)"""
    b = text.encode("utf-8")
    parts = ["(unsigned char)%s[%d] == %d" % (expr, i, ch) for i, ch in enumerate(b)] + ["%s[%d] == 0" % (expr, len(b))]
    return " && ".join(parts)


def num_literal(prim, text):
    P = PRIMS[prim]
    if P["fp"]:
        t = text.strip()
        if t.lower() in ("nan",):
            return None
        if t.upper() in ("INF", "+INF"):
            return "((%s)__builtin_inf())" % P["c"]
        if t.upper() == "-INF":
            return "((%s)(-__builtin_inf()))" % P["c"]
        if "." not in t and "e" not in t.lower() and "inf" not in t.lower():
            t += ".0"
        return "(%s)%s%s" % (P["c"], t, "F" if prim == "float" else "")
    v = int(text)
    if P["signed"]:
        if v == -(1 << 63):
            return "(-9223372036854775807L-1)"
        return "%dL" % v
    return "%dUL" % v


def dyn_chain(sch, li, vw, members, lstart_off, wbl, fixed_bl=False):
    """walk dynamic members in order; returns (assumptions, {index: (start offset expr, size expr)}, end offset expr)"""
    pre = []
    pos = {}
    off = "(%s + %s)" % (lstart_off, wbl)
    for i, m in members:
        if m["mkind"] not in ("group", "data"):
            continue
        at = "%s + %s" % (vw.begin, off)
        if m["mkind"] == "data":
            e = m["enc"]
            loff, lprim = sch.header_member(e, "length")
            lw = PRIMS[lprim]["size"]
            pre.append(ASSUME("%s + %d <= sbv_n" % (off, lw)))
            ln = hdr_field(sch, e, "length", at)
            pre.append(ASSUME("%s <= %dUL && %s + %d + %s <= sbv_n" % (ln, SMALL, off, lw, ln)))
            size = "(%d + %s)" % (lw, ln)
        else:
            g = m["level"]
            dim = g.dimension
            pre.append(ASSUME("%s + %d <= sbv_n" % (off, dim.size)))
            n = hdr_field(sch, dim, "numInGroup", at)
            bl = hdr_field(sch, dim, "blockLength", at)
            if fixed_bl:
                # traversal lemmas: the wire blockLength of skipped flat groups equals the compiled one (a product by a constant);
                # symbolic wire block lengths of groups are covered by flat_group::size_bytes and by the random-access getters
                pre.append(ASSUME("%s <= %dUL && %s == %dUL && %s + %d + %s * %dUL <= sbv_n" % (n, SMALL, bl, g.block_length, off, dim.size, n, g.block_length)))
                size = "(%d + %s * %dUL)" % (dim.size, n, g.block_length)
            else:
                pre.append(ASSUME("%s <= %dUL && %s <= %dUL && %s >= %dUL && %s + %d + %s * %s <= sbv_n" % (n, SMALL, bl, SMALL, bl, g.block_length, off, dim.size, n, bl)))
                size = "(%d + %s * %s)" % (dim.size, n, bl)
        pos[i] = (off, size)
        off = "(%s + %s)" % (off, size)
    return pre, pos, off


def level_pre(sch, li, vp, rec, vw):
    """N-mode precondition: the level's fixed block is inside the buffer and the wire block length is at least the compiled one"""
    L = li.origin
    lstart, wbl, base = level_geometry(sch, li, vw)
    pre = [OBJ(vp, rec)] + vw.wf()
    if li.kind == "message":
        hs = sch.header.size
        pre.append(ASSUME("%d <= sbv_n" % hs))
        pre.append(ASSUME("%s >= %dUL && %s <= sbv_n && %d + %s <= sbv_n" % (wbl, L.block_length, wbl, hs, wbl)))  # second conjunct: no wrap of HS + wire blockLength for 64-bit header fields
        lstart_off = "%d" % hs
    else:
        pre.append(ASSUME("%s >= %dUL && %s <= sbv_n" % (wbl, L.block_length, wbl)))
        lstart_off = "0"
    return pre, lstart_off, wbl, base


def cursor_contracts(cs, tier):
    sch, g, u = cs.schema, cs.gen, cs.unit
    be = 1 if sch.big_endian else 0
    out = []
    for li in g.levels:
        if li.ident not in g.cursor_roots:
            continue
        cm = g.cursor_roots[li.ident]
        fields = [(i, m) for i, m in cm if m["mkind"] == "field"]
        last_field = fields[-1][0] if fields else None
        for kind in ("plain", "dm", "init", "idm"):
            if tier != "thorough" and cs.name.endswith("_be") and kind != "plain":
                continue  # quick tier: the byte-order twin of a schema is traversed with the plain cursor only
            if tier != "thorough" and kind in ("dm", "idm") and sum(1 for _, m_ in cm if m_["mkind"] == "group") >= 2:
                continue  # quick tier: levels with several flat groups (chained products) keep the plain and init traversals
            f = u.root("r_%s_cur_%s" % (li.ident, kind))
            vp = f.p[0]
            rec = f.params[0]["rec"]
            vw = V(u, "(*%s)" % vp, rec)
            pre, lstart_off, wbl, base = level_pre(sch, li, vp, rec, vw)
            dpre, dpos, endoff = dyn_chain(sch, li, vw, cm, lstart_off, wbl, fixed_bl=True)
            post = []
            for i, m in cm:
                nm = m["name"]
                if m["mkind"] == "field":
                    e = m["enc"]
                    A = base + m["offset"]
                    if e.kind in ("scalar", "enum", "set"):
                        w = PRIMS[e.prim]["size"]
                        post.append(("%s-agrees-with-random-access" % nm, "RET.v%d == %s" % (i, load("%s + %d" % (vw.begin, A), w, be))))
                        endp = A + w
                    else:
                        post.append(("%s-same-bytes-as-random-access" % nm, "RET.v%d.begin == %s + %d && RET.v%d.end == %s" % (i, vw.begin, A, i, vw.end)))
                        endp = A + e.size
                    if i == last_field:
                        post.append(("%s-leaves-cursor-at-end-of-wire-block" % nm, "RET.p%d == %s + %s + %s" % (i, vw.begin, lstart_off, wbl)))
                    else:
                        post.append(("%s-leaves-cursor-after-field" % nm, "RET.p%d == %s + %d" % (i, vw.begin, endp)))
                else:
                    off, size = dpos[i]
                    post.append(("%s-same-bytes-as-random-access" % nm, "RET.v%d.begin == %s + %s && RET.v%d.end == %s" % (i, vw.begin, off, i, vw.end)))
                    post.append(("%s-leaves-cursor-after-member" % nm, "RET.p%d == %s + %s + %s" % (i, vw.begin, off, size)))
            has_product = any(m["mkind"] == "group" for _, m in cm)
            out.append(Contract(f, "%s:%s::cursor traversal (%s)" % (cs.name, li.ident, kind), props={"C04", "C03", "C10"}, ghosts=GH_N, mode="N", pre=pre + dpre, post=post, assigns=[],
                                backends=PB, optional=len(dpos) >= 4,
                                note="legal forward traversal of level %s with the %s wrapper: never reported, agrees with random access, documented positions" % (li.ident, kind)))
    return out


def size_fill_contracts(cs, tier):
    sch, g, u = cs.schema, cs.gen, cs.unit
    be = 1 if sch.big_endian else 0
    out = []
    by_ident = {li.ident: li for li in g.levels}
    for idn in g.size_roots:
        li = by_ident[idn]
        f = u.root("r_%s_size" % idn)
        vp = f.p[0]
        rec = f.params[0]["rec"]
        vw = V(u, "(*%s)" % vp, rec)
        if li.kind == "composite":
            out.append(Contract(f, "%s:%s::size_bytes" % (cs.name, idn), props={"C05"}, ghosts=GH_N, pre=[OBJ(vp, rec)] + vw.wf(), post=[("schema-size", "RET == %d" % li.origin.size)], assigns=[]))
            continue
        pre, lstart_off, wbl, base = level_pre(sch, li, vp, rec, vw)
        wm = Gen.wire_members(li)
        dpre, dpos, endoff = dyn_chain(sch, li, vw, wm, lstart_off, wbl)
        has_product = any(m["mkind"] == "group" for _, m in wm)
        out.append(Contract(f, "%s:%s::size_bytes" % (cs.name, idn), props={"C05", "C03"}, ghosts=GH_N, mode="N", pre=pre + dpre, post=[("wire-size", "RET == %s" % endoff)], assigns=[],
                            backends=PB if has_product else None, optional=len(dpos) >= 4))
    for kind, idn, L, cpp in g.fill_roots:
        if kind == "message":
            f = u.root("r_%s_fill" % idn)
            vp = f.p[0]
            rec = f.params[0]["rec"]
            vw = V(u, "(*%s)" % vp, rec)
            hdr = sch.header
            expect = {"blockLength": L.block_length, "templateId": int(L.attrs["id"]), "schemaId": sch.id, "version": sch.version,
                      "numGroups": len(L.groups), "numVarDataFields": len(L.data)}
            what = "fill_message_header"
        else:
            f = u.root("r_%s_gfill" % idn)
            vp = f.p[0]
            rec = f.params[0]["rec"]
            vw = V(u, "(*%s)" % vp, rec)
            hdr = L.dimension
            expect = {"blockLength": L.block_length, "numInGroup": f.p[1], "numGroups": len(L.groups), "numVarDataFields": len(L.data)}
            what = "fill_group_header"
        post = [("returns-view-of-the-header", "RET.begin == %s && RET.end == %s" % (vw.begin, vw.end))]
        frame = []
        for mn, me, moff in hdr.members:
            if mn in expect and me.kind == "scalar" and not me.constant:
                w = PRIMS[me.prim]["size"]
                post.append(("%s-is-schema-value" % mn, "%s == (uint64_t)(%s)" % (load("%s + %d" % (vw.begin, moff), w, be), expect[mn])))
                frame.append("__CPROVER_object_upto(%s + %d, %d)" % (vw.begin, moff, w))
        out.append(Contract(f, "%s:%s::%s" % (cs.name, idn, what), props={"C17", "C01", "C10"}, ghosts=GH_N, mode="N", pre=[OBJ(vp, rec)] + vw.wf() + [ASSUME("%d <= sbv_n" % hdr.size)], post=post, assigns=frame,
                            note="writes exactly the identifying members; every other byte (other header members, anything past the header) is outside the frame"))
    return out


def trait_contracts(cs, tier):
    sch, g, u = cs.schema, cs.gen, cs.unit
    out = []
    for name, items in g.trait_roots:
        f = u.root("r_tr_" + name)
        post = []
        props = {"C18"}
        for k, (fn, kind, exp) in enumerate(items):
            label = "%s" % fn.replace("T::", "").replace("()", "")
            r = "RET.t%d" % k
            if kind == "str":
                post.append((label, cstr_eq(r, exp)))
            elif isinstance(exp, tuple):
                props = {"C18", "C16"}
                how, what, prim = exp
                P = PRIMS[prim]
                if how == "default":
                    ev = P[what]
                    if ev == "NAN":
                        post.append((label + "-is-SBE-default(NaN)", "%s != %s" % (r, r)))
                        continue
                    post.append((label + "-is-SBE-default", "%s == (%s)%s" % (r, "double" if kind == "f64" else "float" if kind == "f32" else ("long" if kind == "i64" else "unsigned long"), ev)))
                else:
                    lit = num_literal(prim, what)
                    if lit is None:
                        post.append((label + "-is-explicit(NaN)", "%s != %s" % (r, r)))
                    else:
                        post.append((label + "-is-explicit-schema-value", "%s == %s" % (r, lit)))
            else:
                post.append((label, "%s == %s" % (r, ("%dL" % exp) if kind == "i64" else ("%dUL" % exp))))
        out.append(Contract(f, "%s:traits %s" % (cs.name, name), props=props, pre=[], post=post, assigns=[]))
    return out


def type_trait_contracts(cs, tier):
    """type-level traits: every bit of the mask (a boolean computed by the compiler from std::is_same / list membership) must be set"""
    g, u = cs.gen, cs.unit
    out = []
    for name, labels in g.type_trait_roots:
        f = u.root("r_ty_" + name)
        post = [(lab, "((RET >> %d) & 1UL) == 1UL" % k) for k, lab in enumerate(labels)]
        # the representation type of a field is part of "the getter returns exactly the encoded value" (a uint64 decoded through an int64 wrapper
        # has the same bits and another value): the level roots also serve C02
        props = {"C18", "C02"} if name.startswith(("msg_", "grp_")) else {"C18"}
        out.append(Contract(f, "%s:type-level traits %s" % (cs.name, name), props=props, pre=[], post=post, assigns=[]))
    return out


def scalar_type_contracts(cs, tier):
    """required_base/optional_base instantiated for the schema-defined types, with min/max/null taken from the XML (or the SBE defaults)"""
    from .scalars import unit_contracts
    sch, g, u = cs.schema, cs.gen, cs.unit
    entries = []
    for rid, e in g.scalar_types:
        P0 = PRIMS[e.prim]
        a = e.attrs

        def val(attr, default):
            if attr in a:
                lit = num_literal(e.prim, a[attr]) if e.prim != "char" else str(ord(a[attr]) if len(a[attr]) == 1 else int(a[attr]))
                return "NAN" if lit is None else "(" + lit + ")"
            return default
        P = dict(c=P0["c"], size=P0["size"], fp=P0["fp"], signed=P0["signed"], min=val("minValue", P0["min"]), max=val("maxValue", P0["max"]), null=val("nullValue", P0["null"]))
        entries.append((rid, P, e.presence != "optional", e.presence == "optional", e.prim))
    out = unit_contracts(u, tier, tag="[%s]" % cs.name, entries=entries)
    for c in out:
        c.props = {"C16"}
    return out


def visit_contracts(cs, tier):
    """visit_children of every level with a recording visitor that stops at a symbolic callback ordinal"""
    sch, g, u = cs.schema, cs.gen, cs.unit
    be = 1 if sch.big_endian else 0
    out = []
    by_ident = {li.ident: li for li in g.levels}
    for idn in g.visit_roots:
        li = by_ident[idn]
        f = u.root("r_%s_visit" % idn)
        vp, stop = f.p[0], f.p[1]
        rec = f.params[0]["rec"]
        vw = V(u, "(*%s)" % vp, rec)
        pre, lstart_off, wbl, base = level_pre(sch, li, vp, rec, vw)
        wm = Gen.wire_members(li)
        dpre, dpos, endoff = dyn_chain(sch, li, vw, wm, lstart_off, wbl, fixed_bl=True)
        total = len(wm)
        post = [("callbacks-made", "RET.v.n == (%s <= %d ? %s : %dUL)" % (stop, total, stop, total)), ("stops-as-soon-as-a-callback-returns-true", "RET.stopped == (_Bool)(%s <= %d)" % (stop, total))]
        KIND = {"field": 1, "group": 2, "data": 3}
        for j, (i, m) in enumerate(wm):
            mid = int((m.get("attrs") or m["level"].attrs)["id"]) if m["mkind"] != "group" else int(m["level"].attrs["id"])
            guard = "%s > %d" % (stop, j)  # callback j happened
            clause = "RET.v.kind[%d] == %d && RET.v.id[%d] == %d" % (j, KIND[m["mkind"]], j, mid)
            if m["mkind"] == "field":
                e = m["enc"]
                A = base + m["offset"]
                if e.kind in ("scalar", "enum", "set"):
                    clause += " && RET.v.val[%d] == %s" % (j, load("%s + %d" % (vw.begin, A), PRIMS[e.prim]["size"], be))
                else:
                    clause += " && RET.v.ptr[%d] == %s + %d" % (j, vw.begin, A)
            else:
                off, size = dpos[i]
                clause += " && RET.v.ptr[%d] == %s + %s" % (j, vw.begin, off)
            post.append(("callback-%d-is-%s-in-schema-order-with-accessor-value" % (j, m["name"]), "SPEC_IMPLIES(%s, %s)" % (guard, clause)))
        post.append(("complete-visit-leaves-cursor-at-end-of-view", "SPEC_IMPLIES(%s > %d, RET.cursor == %s + %s)" % (stop, total, vw.begin, endoff)))
        out.append(Contract(f, "%s:%s::visit_children" % (cs.name, idn), props={"C19", "C04"}, ghosts=GH_N, mode="N", pre=pre + dpre + [ASSUME("%s >= 1" % stop)], post=post, assigns=[], backends=PB, optional=len(dpos) >= 4,
                            note="recording visitor; stop ordinal symbolic: every stopping point at once"))
    return out


def set_enum_contracts(cs, tier):
    sch, g, u = cs.schema, cs.gen, cs.unit
    out = []
    for idn, e in g.set_roots:
        w = PRIMS[e.prim]["size"] * 8
        mask = (1 << w) - 1
        for nm, label in (("get", "named getters"), ("get_bytag", "get_by_tag")):
            f = u.root("r_set_%s_%s" % (idn, nm))
            s = f.p[0]
            raw = "%s%s.%s" % (s, u.path_to(f.params[0]["rec"], "sbepp::detail::bitset_base"), u.field(u.rec(f.params[0]["rec"])["bases"][0]["cname"], 0))
            post = [("%s-is-bit-%d" % (v[0], v[1]), "RET.c%d == (_Bool)(((uint64_t)%s >> %d) & 1)" % (i, raw, v[1])) for i, v in enumerate(e.values)]
            out.append(Contract(f, "%s:set %s %s" % (cs.name, idn, label), props={"C15", "C19"} if nm == "get_bytag" else {"C15"}, pre=[], post=post, assigns=[]))
        for nm, label in (("set", "named setters"), ("set_bytag", "set_by_tag")):
            f = u.root("r_set_%s_%s" % (idn, nm))
            s, x = f.p[0], f.p[1]
            raw = "%s%s.%s" % (s, u.path_to(f.params[0]["rec"], "sbepp::detail::bitset_base"), u.field(u.rec(f.params[0]["rec"])["bases"][0]["cname"], 0))
            clear = 0
            for v in e.values:
                clear |= 1 << v[1]
            newbits = " | ".join("((uint64_t)(%s.c%d ? 1 : 0) << %d)" % (x, i, v[1]) for i, v in enumerate(e.values))
            out.append(Contract(f, "%s:set %s %s" % (cs.name, idn, label), props={"C15", "C19"} if nm == "set_bytag" else {"C15"}, pre=[],
                                post=[("each-setter-changes-exactly-its-bit", "RET == ((((uint64_t)%s & 0x%xULL) & ~0x%xULL) | %s)" % (raw, mask, clear, newbits))], assigns=[]))
        f = u.root("r_set_%s_visit" % idn)
        s = f.p[0]
        raw = "%s%s.%s" % (s, u.path_to(f.params[0]["rec"], "sbepp::detail::bitset_base"), u.field(u.rec(f.params[0]["rec"])["bases"][0]["cname"], 0))
        post = [("every-choice-once", "RET.n == %d" % len(e.values))]
        for i, v in enumerate(e.values):
            post.append(("callback-%d-is-%s-with-its-bit" % (i, v[0]), "RET.idx[%d] == %d && RET.val[%d] == (_Bool)(((uint64_t)%s >> %d) & 1)" % (i, v[1], i, raw, v[1])))
        out.append(Contract(f, "%s:set %s visit" % (cs.name, idn), props={"C15", "C19"}, pre=[], post=post, assigns=[]))
    for idn, e in g.enum_roots:
        f = u.root("r_enum_%s_visit" % idn)
        ev = f.p[0]
        vals = [ord(v[1]) if e.prim == "char" else int(v[1]) for v in e.values]
        isknown = " || ".join("(uint64_t)%s == %dULL" % (bits(e.prim, ev), x & ((1 << (8 * PRIMS[e.prim]["size"])) - 1)) for x in vals) or "0"
        out.append(Contract(f, "%s:enum %s visit" % (cs.name, idn), props={"C19"}, pre=[],
                            post=[("known-iff-valid-value", "RET.known == (_Bool)(%s)" % isknown), ("reports-the-value's-own-tag", "SPEC_IMPLIES(RET.known, RET.tag_value == %s)" % bits(e.prim, ev))], assigns=[]))
    return out


def sbc_contracts(cs, tier):
    """size_bytes_checked(view, n) on a buffer object of EXACTLY n bytes (any read at offset >= n is a CBMC pointer-check failure),
    unchecked assert configuration (the one in which this function is the only protection)"""
    sch, g, u = cs.schema, cs.gen, cs.unit
    out = []
    by_ident = {li.ident: li for li in g.levels}
    for idn in g.sbc_roots:
        li = by_ident[idn]
        L = li.origin
        f = u.root("r_%s_sbc" % idn)
        vp, n = f.p[0], f.p[1]
        rec = f.params[0]["rec"]
        vw = V(u, "(*%s)" % vp, rec)
        hs = sch.header.size
        wbl = hdr_field(sch, sch.header, "blockLength", vw.begin)
        wm = Gen.wire_members(li)
        # structure-fits predicate, evaluated left to right so that nothing is read before it is known to be inside the buffer
        # written subtractively (x <= n - off) so that 64-bit header/length fields cannot wrap the specification itself
        conds = ["sbv_n >= %d" % hs, "%s <= sbv_n - %d" % (wbl, hs)]
        off = "(%d + %s)" % (hs, wbl)
        has_group = False
        for i, m in wm:
            if m["mkind"] == "data":
                e = m["enc"]
                loff, lprim = sch.header_member(e, "length")
                lw = PRIMS[lprim]["size"]
                ln = hdr_field(sch, e, "length", "%s + %s" % (vw.begin, off))
                conds += ["%d <= sbv_n - %s" % (lw, off), "%s <= sbv_n - %s - %d" % (ln, off, lw)]
                off = "(%s + %d + %s)" % (off, lw, ln)
            elif m["mkind"] == "group":
                has_group = True
                gl = m["level"]
                dim = gl.dimension
                at = "%s + %s" % (vw.begin, off)
                nn = hdr_field(sch, dim, "numInGroup", at)
                bl = hdr_field(sch, dim, "blockLength", at)
                conds += ["%d <= sbv_n - %s" % (dim.size, off), "%s * %s <= sbv_n - %s - %d" % (nn, bl, off, dim.size)]
                off = "(%s + %d + %s * %s)" % (off, dim.size, nn, bl)
        fits = "(" + " && ".join(conds) + ")"
        post = [("valid-exactly-when-the-structure-fits", "RET.valid == (_Bool)%s" % fits), ("exact-size-when-valid", "SPEC_IMPLIES(RET.valid, RET.size == %s)" % off), ("zero-size-when-invalid", "SPEC_IMPLIES(!RET.valid, RET.size == 0)"),
                ("work-bounded-by-n", "sbv_steps <= 8 * (sbv_n + 1)")]
        pre = [OBJ(vp, rec), BUF(vw.begin, "sbv_n"), ASSUME("%s == sbv_n" % n)]
        bound = []
        kind = "unbounded"
        unwind = None
        if has_group:
            # entry loops: bounded stand-in (numInGroup <= 2 for every group of the level)
            kind = "bounded(numInGroup<=2)"
            unwind = 4
            o2 = "(%d + %s)" % (hs, wbl)
            for i, m in wm:
                if m["mkind"] == "group":
                    dim = m["level"].dimension
                    at = "%s + %s" % (vw.begin, o2)
                    nn = hdr_field(sch, dim, "numInGroup", at)
                    bl = hdr_field(sch, dim, "blockLength", at)
                    bound.append(ASSUME("!(sbv_n >= %d && %s <= sbv_n - %d && %d <= sbv_n - %s) || %s <= 2" % (hs, wbl, hs, dim.size, o2, nn)))
                    o2 = "(%s + %d + %s * %s)" % (o2, dim.size, nn, bl)
                elif m["mkind"] == "data":
                    break
        if has_group and tier != "thorough":
            continue  # entry loops make these two contracts cost many minutes of solver time: thorough tier only
        name = "%s:%s::size_bytes_checked" % (cs.name, idn)
        out.append(Contract(f, name + " [any buffer]", props={"C06"}, ghosts=GH_N, mode="S", pre=pre + bound, post=post, assigns=[], kind=kind, unwind=unwind, backends=PB,
                            note="hostile buffers: every length n, every content"))
        # the same contract for buffers whose wire block length covers the compiled block and whose data prefixes are inside the buffer:
        # separates the part that holds today from the known findings
        benign = [ASSUME("sbv_n < %d || %s >= %dUL" % (hs, wbl, L.block_length))]
        # ... and whose <data> length prefixes are inside the buffer (their payload may still be truncated)
        cprev = ["sbv_n >= %d" % hs, "%s <= sbv_n - %d" % (wbl, hs)]
        o3 = "(%d + %s)" % (hs, wbl)
        for i, m in wm:
            if m["mkind"] == "data":
                e = m["enc"]
                loff, lprim = sch.header_member(e, "length")
                lw = PRIMS[lprim]["size"]
                benign.append(ASSUME("!(%s) || %d <= sbv_n - %s" % (" && ".join(cprev), lw, o3)))
                ln = hdr_field(sch, e, "length", "%s + %s" % (vw.begin, o3))
                cprev += ["%d <= sbv_n - %s" % (lw, o3), "%s <= sbv_n - %s - %d" % (ln, o3, lw)]
                o3 = "(%s + %d + %s)" % (o3, lw, ln)
            elif m["mkind"] == "group":
                dim = m["level"].dimension
                at = "%s + %s" % (vw.begin, o3)
                nn = hdr_field(sch, dim, "numInGroup", at)
                bl = hdr_field(sch, dim, "blockLength", at)
                cprev += ["%d <= sbv_n - %s" % (dim.size, o3), "%s * %s <= sbv_n - %s - %d" % (nn, bl, o3, dim.size)]
                o3 = "(%s + %d + %s * %s)" % (o3, dim.size, nn, bl)
        out.append(Contract(f, name + " [wire block >= compiled block, data prefixes inside]", props={"C06"}, ghosts=GH_N, mode="S", pre=pre + bound + benign, post=post, assigns=[], kind=kind, unwind=unwind, backends=PB))
    return out


def cvisit_contracts(cs, tier):
    """visit_children of every composite: each non-constant member once, in schema order, with its own tag (name) and the accessor's value"""
    sch, g, u = cs.schema, cs.gen, cs.unit
    be = 1 if sch.big_endian else 0
    out = []
    by_ident = {li.ident: li for li in g.levels}
    KIND = {"scalar": 4, "array": 4, "enum": 5, "set": 6, "composite": 7}
    for idn in g.cvisit_roots:
        li = by_ident[idn]
        f = u.root("r_%s_cvisit" % idn)
        vp, stop = f.p[0], f.p[1]
        rec = f.params[0]["rec"]
        vw = V(u, "(*%s)" % vp, rec)
        wm = Gen.wire_members(li)
        total = len(wm)
        post = [("callbacks-made", "RET.v.n == (%s <= %d ? %s : %dUL)" % (stop, total, stop, total)), ("stops-as-soon-as-a-callback-returns-true", "RET.stopped == (_Bool)(%s <= %d)" % (stop, total))]
        for j, (i, m) in enumerate(wm):
            e = m["enc"]
            A = m["offset"]
            clause = "RET.v.kind[%d] == %d && %s" % (j, KIND[e.kind], cstr_eq("RET.v.name[%d]" % j, m["name"]))
            if e.kind in ("scalar", "enum", "set"):
                clause += " && RET.v.val[%d] == %s" % (j, load("%s + %d" % (vw.begin, A), PRIMS[e.prim]["size"], be))
            else:
                clause += " && RET.v.ptr[%d] == %s + %d" % (j, vw.begin, A)
            post.append(("callback-%d-is-member-%s-with-its-tag-and-accessor-value" % (j, m["name"]), "SPEC_IMPLIES(%s > %d, %s)" % (stop, j, clause)))
        out.append(Contract(f, "%s:%s::visit_children(composite)" % (cs.name, idn), props={"C19"}, ghosts=GH_N, mode="N", pre=[OBJ(vp, rec)] + vw.wf() + [ASSUME("%d <= sbv_n" % li.origin.size), ASSUME("%s >= 1" % stop)],
                            post=post, assigns=[]))
    return out


def constness_contracts(cs, tier):
    """C11, compile-time half as far as overload resolution shows it: every setter is not callable on a const-byte view nor with a const cursor
    (plain, init, dont_move, init_dont_move), is callable on mutable views (positive control); views/cursors convert only towards const"""
    sch, g, u = cs.schema, cs.gen, cs.unit
    out = []
    LAB = ["const-byte view", "const cursor", "init(const cursor)", "dont_move(const cursor)", "init_dont_move(const cursor)", "const-byte view + mutable cursor"]
    for idn, setters in g.const_roots:
        f = u.root("r_%s_constness" % idn)
        post = []
        for i, m in setters:
            for k, lab in enumerate(LAB):
                post.append(("%s-setter-rejected-for-%s" % (m["name"], lab), "!RET.n%d[%d]" % (i, k)))
            post.append(("%s-setter-available-on-mutable-view (detection control)" % m["name"], "RET.p%d[0] && RET.p%d[1]" % (i, i)))
        out.append(Contract(f, "%s:%s::setters rejected for const byte types" % (cs.name, idn), props={"C11"}, pre=[], post=post, assigns=[],
                            note="decided by clang's overload resolution while lowering (expression-validity detection); CBMC only checks the resulting constants"))
    for idn, arrs in g.constelem_roots:
        f = u.root("r_%s_constelems" % idn)
        post = []
        for i, m in arrs:
            post.append(("%s-elements-are-const-through-a-const-byte-view" % m["name"], "RET.c%d" % i))
            post.append(("%s-elements-are-mutable-through-a-mutable-view (control)" % m["name"], "!RET.m%d" % i))
        out.append(Contract(f, "%s:%s::array element constness" % (cs.name, idn), props={"C11"}, pre=[], post=post, assigns=[]))
    WL = ["const cursor", "init(const cursor)", "dont_move(const cursor)", "init_dont_move(const cursor)"]
    for idn, vm in getattr(g, "constview_roots", []):
        f = u.root("r_%s_constviews" % idn)
        post = []
        for i, m_ in vm:
            for k, lab in enumerate(WL):
                post.append(("%s-through-%s-is-never-a-mutable-view" % (m_["name"], lab), "RET.c%d[%d] != 1" % (i, k)))
            post.append(("%s-through-init(const cursor)-is-a-const-byte-view (detection control)" % m_["name"], "RET.c%d[1] == 2" % i))
            post.append(("%s-through-a-mutable-cursor-is-a-mutable-view (detection control)" % m_["name"], "RET.m%d == 1" % i))
        out.append(Contract(f, "%s:%s::views through const cursors are const" % (cs.name, idn), props={"C11"}, pre=[], post=post, assigns=[],
                            note="decided by clang while lowering (expression-validity detection + byte_type_t); CBMC checks the resulting constants"))
    f = u.root("r_conversions")
    n = len(g.levels)
    post = [("views-convert-towards-const", " && ".join("RET.to_const[%d]" % k for k in range(n))), ("views-do-not-convert-from-const", " && ".join("!RET.from_const[%d]" % k for k in range(n))),
            ("cursor-converts-towards-const", "RET.cur_to_const"), ("cursor-does-not-convert-from-const", "!RET.cur_from_const")]
    out.append(Contract(f, "%s:view and cursor conversions" % cs.name, props={"C11"}, pre=[], post=post, assigns=[]))
    return out


def psize_contracts(cs, tier):
    """traits-level size_bytes(counts..., total_data_size) against the oracle's formula (C05)"""
    sch, g, u = cs.schema, cs.gen, cs.unit
    out = []

    def lw(e):
        off, prim = sch.header_member(e, "length")
        return PRIMS[prim]["size"]

    for idn, L, gl, has_data in g.psize_roots:
        f = u.root("r_trsz_" + idn)
        names = f.p
        cnt = {id(gr): "(unsigned long)%s" % names[k] for k, gr in enumerate(gl)}

        def per_entry(G):
            return G.block_length + sum(x.dimension.size for x in G.groups) + sum(lw(e) for _, e, _ in G.data)

        def payload(G):
            s_ = "%s * %dUL" % (cnt[id(G)], per_entry(G))
            for x in G.groups:
                s_ += " + " + payload(x)
            return s_

        if L.kind == "group":
            expr = "%dUL + %s" % (L.dimension.size, payload(L))
        else:
            expr = "%dUL" % (sch.header.size + L.block_length)
            for x in L.groups:
                expr += " + %dUL + %s" % (x.dimension.size, payload(x))
            expr += " + %dUL" % sum(lw(e) for _, e, _ in L.data)
        if has_data:
            expr += " + (unsigned long)%s" % names[-1]
        out.append(Contract(f, "%s:traits size_bytes(counts) %s" % (cs.name, idn), props={"C05", "C18"}, pre=[], post=[("equals-encoded-size-formula", "RET == %s" % expr)], assigns=[]))
    return out


def contracts(tier):
    out = []
    for cs in corpus.schemas(tier):
        out += constness_contracts(cs, tier)
        out += psize_contracts(cs, tier)
        out += cvisit_contracts(cs, tier)
    for cs in corpus.schemas(tier, asserts="unchecked"):
        if cs.name.endswith("_be") and tier != "thorough":
            continue
        out += sbc_contracts(cs, tier)
    for cs in corpus.schemas(tier):
        out += set_enum_contracts(cs, tier)
        out += visit_contracts(cs, tier)
        out += scalar_type_contracts(cs, tier)
        out += cursor_contracts(cs, tier)
        out += size_fill_contracts(cs, tier)
        out += trait_contracts(cs, tier)
        out += type_trait_contracts(cs, tier)
    return out
