"""C15 - set choices are independent bits for every encoding width (library layer)."""
from ..build import Unit
from ..engine import Contract, OBJ, ASSUME

SERVES = {"C15"}
TITLE = "Set choices are independent bits for every encoding width"


def contracts(tier):
    u = Unit("c15", "c15.cpp").build()
    cs = []
    for W in (8, 16, 32, 64):
        g = u.target("r_get_bit%d" % W)
        rec = g.params[0]["rec"]
        bits = u.field(rec, 0)
        n = g.p[2]
        cs.append(Contract(g, "bitset_base<uint%d>::get_bit" % W, prop="C15",
                           pre=[OBJ("self", rec), ASSUME("%s < %d" % (n, W))],
                           post=[("reflects-exactly-that-bit", "RET == (_Bool)((((uint64_t)self->%s) >> %s) & 1)" % (bits, n))],
                           assigns=[]))
        s = u.target("r_set_bit%d" % W)
        n, b = s.p[2], s.p[3]
        mask = "0x%xULL" % ((1 << W) - 1)
        cs.append(Contract(s, "bitset_base<uint%d>::set_bit" % W, prop="C15",
                           pre=[OBJ("self", rec), ASSUME("%s < %d" % (n, W))],
                           post=[("changes-exactly-that-bit",
                                  "(uint64_t)self->%s == (((OLD((uint64_t)self->%s) & ~(((uint64_t)1) << %s)) | (((uint64_t)(%s ? 1 : 0)) << %s)) & %s)" % (bits, bits, n, b, n, mask))],
                           assigns=["self->%s" % bits]))
        f = u.target("r_raw%d" % W)
        cs.append(Contract(f, "bitset_base<uint%d>::operator* const" % W, prop="C15", pre=[OBJ("self", rec)],
                           post=[("raw-value", "RET == self->%s" % bits)], assigns=[]))
        f = u.target("r_rawref%d" % W)
        cs.append(Contract(f, "bitset_base<uint%d>::operator*" % W, prop="C15", pre=[OBJ("self", rec)],
                           post=[("raw-reference", "RET == &self->%s" % bits)], assigns=[]))
        for nm, op in (("eq", "=="), ("ne", "!=")):
            f = u.target("r_%s%d" % (nm, W))
            a, bb = f.p[0], f.p[1]
            cs.append(Contract(f, "bitset_base<uint%d>::operator%s" % (W, op), prop="C15",
                               pre=[OBJ(a, rec), OBJ(bb, rec)],
                               post=[("compares-raw-values", "RET == (_Bool)(%s->%s %s %s->%s)" % (a, bits, op, bb, bits))], assigns=[]))
        f = u.root("r_ctor%d" % W)
        cs.append(Contract(f, "bitset_base<uint%d>::bitset_base(T)" % W, prop="C15", pre=[],
                           post=[("holds-value", "RET.%s == %s" % (bits, f.p[0]))], assigns=[]))
        f = u.root("r_default%d" % W)
        cs.append(Contract(f, "bitset_base<uint%d>::bitset_base()" % W, prop="C15", pre=[],
                           post=[("zero", "RET.%s == 0" % bits)], assigns=[]))
    return cs
