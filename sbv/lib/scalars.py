"""C16 - optional/required scalars: null, range, ordering and SBE defaults (library layer: the 22 built-in types)."""
from ..build import Unit
from ..engine import Contract, OBJ, ASSUME
from ..sbe import PRIMS, ORDER
from ..sbe import bits as sbe_bits

SERVES = {"C16"}
TITLE = "Optional/required scalars: null, range, ordering and SBE defaults"


def unit_contracts(u, tier, tag="", entries=None):
    """entries: [(id used in root names, table entry {c,size,fp,min,max,null}, has required roots, has optional roots, primitive name)];
    default: the 22 built-in types with the SBE table values"""
    cs = []

    def add(f, name, pre, post, assigns=()):
        cs.append(Contract(f, name + tag, prop="C16", pre=pre, post=post, assigns=list(assigns)))

    if entries is None:
        entries = [(N, PRIMS[N], True, True, N) for N in ORDER]
    for N, P, has_req, has_opt, prim in entries:
        mn, mx, nl = P["min"], P["max"], P["null"]

        def bits(_n, expr, _prim=prim):
            return sbe_bits(_prim, expr)

        def is_null(_n, expr, _P=P):
            if _P["null"] == "NAN":
                return "((%s) != (%s))" % (expr, expr)
            return "((%s) == %s)" % (expr, _P["null"])

        if has_req:
            cs += _required(u, N, P, bits, add)
        if has_opt:
            cs += _optional(u, N, P, bits, is_null, add)
    return cs


def _required(u, N, P, bits, add):
        mn, mx, nl = P["min"], P["max"], P["null"]
        # ---------------- required
        f = u.target("r_req_value_" + N)
        rec = f.params[0]["rec"]
        val = u.field(rec, 0)
        R = "required_base<%s>" % N
        add(f, R + "::value", [OBJ("self", rec)], [("returns-underlying-bits", "%s == %s" % (bits(N, "RET"), bits(N, "self->" + val)))])
        f = u.target("r_req_deref_" + N)
        add(f, R + "::operator* const", [OBJ("self", rec)], [("returns-underlying-bits", "%s == %s" % (bits(N, "RET"), bits(N, "self->" + val)))])
        f = u.target("r_req_derefm_" + N)
        add(f, R + "::operator*", [OBJ("self", rec)], [("returns-reference", "RET == &self->" + val)])
        f = u.target("r_req_in_range_" + N)
        add(f, R + "::in_range", [OBJ("self", rec)], [("min<=v<=max", "RET == (_Bool)(%s <= self->%s && self->%s <= %s)" % (mn, val, val, mx))])
        for nm, op in (("eq", "=="), ("ne", "!="), ("lt", "<"), ("le", "<="), ("gt", ">"), ("ge", ">=")):
            f = u.target("r_req_%s_%s" % (nm, N))
            a, b = f.p[0], f.p[1]
            add(f, R + "::operator" + op, [OBJ(a, rec), OBJ(b, rec)], [("compares-values", "RET == (_Bool)(%s->%s %s %s->%s)" % (a, val, op, b, val))])
        f = u.root("r_req_default_" + N)
        drec = f.j["ret_rec"]
        dpath = u.path_to(drec, "sbepp::detail::required_base")
        add(f, R + "::required_base()", [], [("value-initialized", "%s == 0" % bits(N, "RET%s.%s" % (dpath, val)))])
        f = u.root("r_req_from_" + N)
        add(f, R + "::required_base(T)", [], [("holds-value", "%s == %s" % (bits(N, "RET%s.%s" % (dpath, val)), bits(N, f.p[0])))])
        f = u.target("r_req_min_" + N)
        add(f, N + "_t::min_value", [], [("SBE-default-min", "%s == %s" % (bits(N, "RET"), bits(N, "(%s)%s" % (P["c"], mn))))])
        f = u.target("r_req_max_" + N)
        add(f, N + "_t::max_value", [], [("SBE-default-max", "%s == %s" % (bits(N, "RET"), bits(N, "(%s)%s" % (P["c"], mx))))])
        return []


def _optional(u, N, P, bits, is_null, add):
        mn, mx, nl = P["min"], P["max"], P["null"]
        # ---------------- optional
        f = u.target("r_opt_value_" + N)
        rec = f.params[0]["rec"]
        val = u.field(rec, 0)
        O = "optional_base<%s>" % N
        add(f, O + "::value", [OBJ("self", rec)], [("returns-underlying-bits", "%s == %s" % (bits(N, "RET"), bits(N, "self->" + val)))])
        f = u.target("r_opt_deref_" + N)
        add(f, O + "::operator* const", [OBJ("self", rec)], [("returns-underlying-bits", "%s == %s" % (bits(N, "RET"), bits(N, "self->" + val)))])
        f = u.target("r_opt_derefm_" + N)
        add(f, O + "::operator*", [OBJ("self", rec)], [("returns-reference", "RET == &self->" + val)])
        f = u.target("r_opt_in_range_" + N)
        add(f, O + "::in_range", [OBJ("self", rec)], [("min<=v<=max", "RET == (_Bool)(%s <= self->%s && self->%s <= %s)" % (mn, val, val, mx))])
        f = u.target("r_opt_has_value_" + N)
        add(f, O + "::has_value", [OBJ("self", rec)], [("has_value-iff-not-null", "RET == (_Bool)!%s" % is_null(N, "self->" + val))])
        f = u.target("r_opt_bool_" + N)
        add(f, O + "::operator bool", [OBJ("self", rec)], [("bool-iff-not-null", "RET == (_Bool)!%s" % is_null(N, "self->" + val))])
        f = u.target("r_opt_value_or_" + N)
        d = f.p[1]
        add(f, O + "::value_or", [OBJ("self", rec)],
            [("value-or-default", "%s == (%s ? %s : %s)" % (bits(N, "RET"), is_null(N, "self->" + val), bits(N, d), bits(N, "self->" + val)))])
        for nm, op in (("eq", "=="), ("ne", "!="), ("lt", "<"), ("le", "<="), ("gt", ">"), ("ge", ">=")):
            f = u.target("r_opt_%s_%s" % (nm, N))
            a, b = f.p[0], f.p[1]
            na, nb = is_null(N, "%s->%s" % (a, val)), is_null(N, "%s->%s" % (b, val))
            va, vb = "%s->%s" % (a, val), "%s->%s" % (b, val)
            if op == "==":
                e = "((%s && %s) || (!%s && !%s && %s == %s))" % (na, nb, na, nb, va, vb)
            elif op == "!=":
                e = "!((%s && %s) || (!%s && !%s && %s == %s))" % (na, nb, na, nb, va, vb)
            elif op == "<":
                e = "(!%s && (%s || %s < %s))" % (nb, na, va, vb)
            elif op == "<=":
                e = "(%s || (!%s && %s <= %s))" % (na, nb, va, vb)
            elif op == ">":
                e = "(!%s && (%s || %s > %s))" % (na, nb, va, vb)
            else:
                e = "(%s || (!%s && %s >= %s))" % (nb, na, va, vb)
            add(f, O + "::operator" + op, [OBJ(a, rec), OBJ(b, rec)], [("null-equals-only-null-and-orders-first", "RET == (_Bool)%s" % e)])
        f = u.root("r_opt_default_" + N)
        drec = f.j["ret_rec"]
        dpath = u.path_to(drec, "sbepp::detail::optional_base")
        add(f, O + "::optional_base()", [], [("default-constructed-is-null", is_null(N, "RET%s.%s" % (dpath, val)))])
        f = u.root("r_opt_nullopt_" + N)
        add(f, O + "::optional_base(nullopt_t)", [], [("nullopt-constructed-is-null", is_null(N, "RET%s.%s" % (dpath, val)))])
        f = u.root("r_opt_from_" + N)
        add(f, O + "::optional_base(T)", [], [("holds-value", "%s == %s" % (bits(N, "RET%s.%s" % (dpath, val)), bits(N, f.p[0])))])
        f = u.target("r_opt_min_" + N)
        add(f, N + "_opt_t::min_value", [], [("SBE-default-min", "%s == %s" % (bits(N, "RET"), bits(N, "(%s)%s" % (P["c"], mn))))])
        f = u.target("r_opt_max_" + N)
        add(f, N + "_opt_t::max_value", [], [("SBE-default-max", "%s == %s" % (bits(N, "RET"), bits(N, "(%s)%s" % (P["c"], mx))))])
        f = u.target("r_opt_null_" + N)
        if P["null"] == "NAN":
            add(f, N + "_opt_t::null_value", [], [("SBE-default-null-is-NaN", "RET != RET")])
        else:
            add(f, N + "_opt_t::null_value", [], [("SBE-default-null", "%s == %s" % (bits(N, "RET"), bits(N, "(%s)%s" % (P["c"], nl))))])
        return []


def contracts(tier):
    u = Unit("c16", "c16.cpp").build()
    cs = unit_contracts(u, tier)
    return cs
