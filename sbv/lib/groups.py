"""flat_group_base / nested_group_base / random_access_iterator / forward_iterator / cursor_range / input_iterator
for (blockLength type, numInGroup type) pairs: container and iterator laws (C12), exact sizes (C05), wire geometry (C03),
bounds (C10), frames (C11), entry visiting (C19)."""
import os

from ..build import Unit, ToolError, ensure_generated, VERIF
from ..engine import Contract, BUF, OBJ, SET, ASSUME, INRANGE, Loop
from ..oracle import Schema
from ..sbe import PRIMS
from ..views import V

SERVES = {"C03", "C04", "C05", "C10", "C11", "C12", "C19"}
QUICK_PAIRS = ["b16_n16", "b32_n8", "b64_n16"]
ALL_PAIRS = ["b%d_n%d" % (b, n) for b in (8, 16, 32, 64) for n in (8, 16, 32, 64)]
GH = [("unsigned long", "sbv_n")]
UT = {8: "unsigned char", 16: "unsigned short", 32: "unsigned int", 64: "unsigned long"}
ST = {8: "signed char", 16: "short", 32: "int", 64: "long"}
PRODUCT_BACKENDS = ["kissat", "z3", "cvc5", "minisat"]
SCOPE = 1 << int(os.environ.get("SBV_SCOPE_BITS", "31"))  # scope for |n| and blockLength (2^31: the product stays below 2^62) where a 64-bit signed product must not overflow (iterator arithmetic)


def pair_info(P):
    b, n = P.split("_")
    bw, nw = int(b[1:]), int(n[1:])
    return bw, nw


def crec(u, f, i):
    return f.params[i]["rec"]


def retrec(f):
    return f.j["ret_rec"]


class ItV:
    """random_access_iterator / forward_iterator record accessor (fields by ordinal)"""

    def __init__(self, u, expr, rec, kind):
        r = u.rec(rec)
        names = [x["name"] for x in r["fields"]]
        self.ptr = expr + "." + names[0]
        if kind == "ra":
            self.bl, self.index = expr + "." + names[1], expr + "." + names[2]
        else:
            self.index, self.bl = expr + "." + names[1], expr + "." + names[2]
        self.end = expr + "." + names[3]


class EntryV(V):
    pass


def it_state(u, p, rec, kind, buf="sbv_buf"):
    """pre items: iterator object *p over a ghost buffer; ptr at offset sbv_c"""
    it = ItV(u, "(*%s)" % p, rec, kind)
    return [BUF(buf, "sbv_n"), OBJ(p, rec), INRANGE(it.ptr, buf, buf + " + sbv_n", "sbv_c"), SET(it.end, buf + " + sbv_n"), ASSUME("sbv_c <= sbv_n")], it


def contracts(tier):
    allp = tier == "thorough"
    pairs = ALL_PAIRS if allp else QUICK_PAIRS
    d = ensure_generated(os.path.join(VERIF, "corpus", "dims16.xml"))
    u = Unit("groups-all" if allp else "groups", "groups.cpp", incs=[d], defs=["-DSBV_ALL_PAIRS"] if allp else []).build()
    out = []
    GB = [("char *", "sbv_buf"), ("unsigned long", "sbv_n"), ("unsigned long", "sbv_c")]
    for P in pairs:
        bw, nw = pair_info(P)
        bb, nb = bw // 8, nw // 8
        HDR = bb + nb
        ITY, DTY = UT[nw], ST[nw]
        wide = bw == 64 or nw == 64
        T = "<%s>" % P

        def add(f, name, pre, post, assigns=(), mode="S", props=(), ghosts=GH, **kw):
            out.append(Contract(f, name + T, props=set(props), ghosts=list(ghosts), mode=mode, pre=pre, post=post, assigns=list(assigns), **kw))

        def group_view(f, i=0):
            p = f.p[i]
            rec = crec(u, f, i)
            vw = V(u, "(*%s)" % p, rec)
            return p, rec, vw

        def wire(vw):
            return "SPEC_LOAD(%s, %d, 0)" % (vw.begin, bb), "SPEC_LOAD(%s + %d, %d, 0)" % (vw.begin, bb, nb)

        def nowrap(BL, N):
            # wire values are only read when the header is inside the buffer
            return [ASSUME("sbv_n < %d || (!__CPROVER_overflow_mult((unsigned long)%s, (unsigned long)%s) && (unsigned long)%s * (unsigned long)%s <= (1UL << 62))" % (HDR, N, BL, N, BL))] if wide else []

        # ================= flat group
        f = u.target("r_f_header_" + P)
        p, rec, vw = group_view(f)
        hw = V(u, "RET", retrec(f))
        base = [OBJ(p, rec)] + vw.wf()
        add(f, "flat_group::get_header", base, [("header-in-bounds-or-reported", "%d <= sbv_n" % HDR), ("header-at-group-start", "%s == %s && %s == %s" % (hw.begin, vw.begin, hw.end, vw.end))],
            props={"C10", "C11", "C12"})
        add(f, "flat_group::get_header", base + [ASSUME("%d <= sbv_n" % HDR)], [("header-at-group-start", "%s == %s" % (hw.begin, vw.begin))], mode="N", props={"C10"})

        f = u.target("r_f_size_bytes_" + P)
        p, rec, vw = group_view(f)
        BL, N = wire(vw)
        base = [OBJ(p, rec)] + vw.wf()
        add(f, "flat_group::size_bytes", base + nowrap(BL, N),
            [("header-in-bounds-or-reported", "%d <= sbv_n" % HDR), ("exact-wire-size", "RET == %d + (unsigned long)%s * (unsigned long)%s" % (HDR, N, BL))],
            props={"C05", "C03", "C10", "C11"}, backends=PRODUCT_BACKENDS)

        f = u.target("r_f_sbe_size_" + P)
        p, rec, vw = group_view(f)
        BL, N = wire(vw)
        rr = retrec(f)
        rv = "RET" + u.path_to(rr, "sbepp::detail::required_base") + "." + u.field(u.rec(rr)["bases"][0]["cname"], 0)
        add(f, "flat_group::sbe_size", [OBJ(p, rec)] + vw.wf(), [("wire-numInGroup", "%s == %s" % (rv, N))], props={"C12", "C03", "C11"})
        f = u.target("r_f_size_" + P)
        p, rec, vw = group_view(f)
        add(f, "flat_group::size", [OBJ(p, rec)] + vw.wf(), [("wire-numInGroup", "RET == %s" % wire(vw)[1])], props={"C12", "C03", "C11"})
        f = u.target("r_f_empty_" + P)
        p, rec, vw = group_view(f)
        add(f, "flat_group::empty", [OBJ(p, rec)] + vw.wf(), [("empty-iff-zero", "RET == (_Bool)(%s == 0)" % wire(vw)[1])], props={"C12", "C11"})
        f = u.target("r_f_max_size_" + P)
        add(f, "flat_group::max_size", [], [("numInGroup-max-value", "(unsigned long)RET == %dUL" % ((1 << nw) - 2))], props={"C12"})

        for nm, val in (("resize", None), ("clear", "0")):
            f = u.target("r_f_%s_%s" % (nm, P))
            p, rec, vw = group_view(f)
            v = f.p[1] if val is None else val
            post = [("header-in-bounds-or-reported", "%d <= sbv_n" % HDR)] + [("numInGroup-byte-%d" % k, "(uint8_t)%s[%d] == SPEC_BYTE((uint64_t)%s, %d, 0, %d)" % (vw.begin, bb + k, v, nb, k)) for k in range(nb)]
            add(f, "flat_group::" + nm, [OBJ(p, rec)] + vw.wf(), post, assigns=["%d <= sbv_n: __CPROVER_object_upto(%s + %d, %d)" % (HDR, vw.begin, bb, nb)], props={"C12", "C01", "C10"})

        for nm in ("begin", "end"):
            f = u.target("r_f_%s_%s" % (nm, P))
            p, rec, vw = group_view(f)
            BL, N = wire(vw)
            it = ItV(u, "RET", retrec(f), "ra")
            if nm == "begin":
                post = [("points-at-first-entry", "%s == %s + %d" % (it.ptr, vw.begin, HDR)), ("index-0", "%s == 0" % it.index)]
                pre = []
                kw = {}
            else:
                post = [("points-past-last-entry", "%s == %s + %d + (unsigned long)%s * (unsigned long)%s" % (it.ptr, vw.begin, HDR, N, BL)), ("index-is-size", "%s == %s" % (it.index, N))]
                pre = nowrap(BL, N)
                kw = dict(backends=PRODUCT_BACKENDS)
            post = [("header-in-bounds-or-reported", "%d <= sbv_n" % HDR)] + post + [("wire-block-length", "%s == %s" % (it.bl, BL)), ("keeps-end", "%s == %s" % (it.end, vw.end))]
            add(f, "flat_group::" + nm, [OBJ(p, rec)] + vw.wf() + pre, post, props={"C12", "C03", "C10", "C11"}, **kw)

        # entry i starts at data start + i * wire blockLength
        f = u.target("r_f_at_" + P)
        p, rec, vw = group_view(f)
        BL, N = wire(vw)
        pos = f.p[1]
        ew = V(u, "RET", retrec(f))
        epost = [("entry-i-at-data-start-plus-i-times-wire-blockLength", "%s == %s + %d + (unsigned long)%s * (unsigned long)%s" % (ew.begin, vw.begin, HDR, pos, BL)),
                 ("entry-carries-wire-blockLength", "%s == %s" % (ew.block_length(), BL)), ("keeps-end", "%s == %s" % (ew.end, vw.end))]
        add(f, "flat_group::operator[]", [OBJ(p, rec)] + vw.wf() + nowrap(BL, N),
            [("header-in-bounds-or-reported", "%d <= sbv_n" % HDR), ("pos-below-size-or-reported", "%s < %s" % (pos, N))] + epost, props={"C12", "C03", "C10", "C11"}, backends=PRODUCT_BACKENDS)
        add(f, "flat_group::operator[]", [OBJ(p, rec)] + vw.wf() + nowrap(BL, N) + [ASSUME("%d <= sbv_n && %s < %s" % (HDR, pos, N))], epost, mode="N", props={"C10", "C12"}, backends=PRODUCT_BACKENDS)
        for nm in ("front", "back"):
            f = u.target("r_f_%s_%s" % (nm, P))
            p, rec, vw = group_view(f)
            BL, N = wire(vw)
            ew = V(u, "RET", retrec(f))
            where = "%s + %d" % (vw.begin, HDR) if nm == "front" else "%s + %d + (unsigned long)%s * (unsigned long)%s - (unsigned long)%s" % (vw.begin, HDR, N, BL, BL)  # (N-1)*BL written as N*BL-BL: same value, no distributivity for the solver
            epost = [("entry-position", "%s == %s" % (ew.begin, where)), ("entry-carries-wire-blockLength", "%s == %s" % (ew.block_length(), BL)), ("keeps-end", "%s == %s" % (ew.end, vw.end))]
            add(f, "flat_group::" + nm, [OBJ(p, rec)] + vw.wf() + nowrap(BL, N), [("header-in-bounds-or-reported", "%d <= sbv_n" % HDR), ("non-empty-or-reported", "%s != 0" % N)] + epost,
                props={"C12", "C03", "C10", "C11"}, backends=PRODUCT_BACKENDS)
            add(f, "flat_group::" + nm, [OBJ(p, rec)] + vw.wf() + nowrap(BL, N) + [ASSUME("%d <= sbv_n && %s != 0" % (HDR, N))], epost, mode="N", props={"C10"}, backends=PRODUCT_BACKENDS)

        # cursor ranges
        crec_ = None
        for r in u.recs.values():
            if r["qual"] == "sbepp::cursor" and r["targs"] == ["char"]:
                crec_ = r["cname"]
        for nm, extra in (("crange", 0), ("csub1", 1), ("csub2", 2)):
            f = u.target("r_f_%s_%s" % (nm, P))
            p, rec, vw = group_view(f)
            BL, N = wire(vw)
            c = f.p[1]
            rr = u.rec(retrec(f))
            fn = [x["name"] for x in rr["fields"]]
            R = lambda k: "RET." + fn[k]
            post = [("header-in-bounds-or-reported", "%d <= sbv_n" % HDR), ("uses-that-cursor", "%s == %s" % (R(0), c)), ("wire-block-length", "%s == %s" % (R(1), BL)), ("keeps-end", "%s == %s" % (R(3), vw.end))]
            legal = "%d <= sbv_n" % HDR
            if extra == 0:
                post += [("starts-at-0", "%s == 0" % R(2)), ("length-is-size", "%s == %s" % (R(4), N))]
            elif extra == 1:
                pos = f.p[2]
                post += [("pos-below-size-or-reported", "%s < %s" % (pos, N)), ("starts-at-pos", "%s == %s" % (R(2), pos)), ("length-to-end", "%s == (%s)(%s - %s)" % (R(4), ITY, N, pos))]
                legal += " && %s < %s" % (pos, N)
            else:
                pos, cnt = f.p[2], f.p[3]
                post += [("pos-below-size-or-reported", "%s < %s" % (pos, N)), ("count-fits-or-reported", "%s <= %s - %s" % (cnt, N, pos)), ("starts-at-pos", "%s == %s" % (R(2), pos)), ("length-is-count", "%s == %s" % (R(4), cnt))]
                legal += " && %s < %s && %s <= %s - %s" % (pos, N, cnt, N, pos)
            nmx = {"crange": "cursor_range", "csub1": "cursor_subrange(pos)", "csub2": "cursor_subrange(pos,count)"}[nm]
            add(f, "flat_group::" + nmx, [OBJ(p, rec)] + vw.wf() + [OBJ(c, crec_)], post, props={"C04", "C10", "C11", "C12"})
            add(f, "flat_group::" + nmx, [OBJ(p, rec)] + vw.wf() + [OBJ(c, crec_), ASSUME(legal)], post[1:3], mode="N", props={"C10", "C04"})
        for nm in ("cbegin", "cend"):
            f = u.target("r_f_%s_%s" % (nm, P))
            p, rec, vw = group_view(f)
            BL, N = wire(vw)
            c = f.p[1]
            rr = u.rec(retrec(f))
            fn = [x["name"] for x in rr["fields"]]
            post = [("header-in-bounds-or-reported", "%d <= sbv_n" % HDR), ("index", "RET.%s == %s" % (fn[0], "0" if nm == "cbegin" else N)), ("uses-that-cursor", "RET.%s == %s" % (fn[1], c)),
                    ("wire-block-length", "RET.%s == %s" % (fn[2], BL)), ("keeps-end", "RET.%s == %s" % (fn[3], vw.end))]
            add(f, "flat_group::cursor_" + nm[1:], [OBJ(p, rec)] + vw.wf() + [OBJ(c, crec_)], post, props={"C04", "C10", "C11"})

        # entry visiting: each entry exactly once, in order, stop as soon as a callback returns true (loop contract, any numInGroup)
        for pre_nm, gname in (("r_f_visit_", "flat_group"), ("r_n_visit_", "nested_group")):
            f = u.target(pre_nm + P)
            p, rec, vw = group_view(f)
            BL, N = wire(vw)
            vv, cc = f.p[2], f.p[3]
            vrec = crec(u, f, 2)
            vf = [x["name"] for x in u.rec(vrec)["fields"]]
            calls, stop_at = "%s->%s" % (vv, vf[0]), "%s->%s" % (vv, vf[1])
            import re as _re
            body = u.text[u.text.index("/*@BEGIN %s@*/" % f.mangled):u.text.index("/*@END %s@*/" % f.mangled)]
            bname = _re.search(r"\b(__begin\d+)\b", body).group(1)
            ename = bname.replace("begin", "end")
            irec = None
            m_ = _re.search(r"struct (\w+) %s;" % bname, body)
            irec = m_.group(1)
            ifn = [x["name"] for x in u.rec(irec)["fields"]]
            bi, ei = "%s.%s" % (bname, ifn[0]), "%s.%s" % (ename, ifn[0])
            inv = ["%s <= %s" % (bi, ei), "(unsigned long)%s == (unsigned long)%s" % (ei, N),
                   "%s == __CPROVER_loop_entry(%s) + (unsigned long)%s" % (calls, calls, bi),
                   "!(__CPROVER_loop_entry(%s) < %s && %s <= %s)" % (calls, stop_at, stop_at, calls)]
            lp = Loop(assigns=[bi, calls], invariants=inv, decreases="(unsigned long)%s - (unsigned long)%s" % (ei, bi))
            hit = "(OLD(%s) < %s && %s <= OLD(%s) + (unsigned long)%s)" % (calls, stop_at, stop_at, calls, N)
            add(f, gname + "::visit_children", [OBJ(p, rec)] + vw.wf() + [OBJ(vv, vrec), OBJ(cc, crec_), ASSUME("%s <= (1UL << 32)" % calls), ASSUME("sbv_n < %d || (unsigned long)%s <= (1UL << 62)" % (HDR, N))],
                [("header-in-bounds-or-reported", "%d <= sbv_n" % HDR), ("stops-at-first-true-callback", "RET == (_Bool)%s" % hit),
                 ("each-entry-visited-once-until-stop", "%s == (%s ? %s : OLD(%s) + (unsigned long)%s)" % (calls, hit, stop_at, calls, N))],
                assigns=[calls], props={"C19", "C12"}, loops={0: lp})

        # ================= random access iterator
        f = u.target("r_it_deref_" + P)
        itrec = crec(u, f, 0)
        pre, it = it_state(u, f.p[0], itrec, "ra")
        ew = V(u, "RET", retrec(f))
        add(f, "random_access_iterator::operator*", pre, [("entry-at-iterator", "%s == %s && %s == %s && %s == %s" % (ew.begin, it.ptr, ew.end, it.end, ew.block_length(), it.bl))], ghosts=GB, props={"C12", "C03", "C11"})
        for nm, post_copy in (("inc", False), ("postinc", True)):
            f = u.target("r_it_%s_%s" % (nm, P))
            pre, it = it_state(u, f.p[0], itrec, "ra")
            post = [("step-in-bounds-or-reported", "(unsigned long)OLD(%s) <= sbv_n - sbv_c" % it.bl), ("moves-one-wire-block", "%s == OLD(%s) + OLD(%s)" % (it.ptr, it.ptr, it.bl)),
                    ("index-plus-1", "%s == (%s)(OLD(%s) + 1)" % (it.index, ITY, it.index)), ("block-length-unchanged", "%s == OLD(%s)" % (it.bl, it.bl))]
            if post_copy:
                r = ItV(u, "RET", retrec(f), "ra")
                post.append(("returns-old-iterator", "%s == OLD(%s) && %s == OLD(%s)" % (r.ptr, it.ptr, r.index, it.index)))
            else:
                post.append(("returns-self", "RET == %s" % f.p[0]))
            add(f, "random_access_iterator::operator++" + ("(int)" if post_copy else ""), pre, post, assigns=[it.ptr, it.index], ghosts=GB, props={"C12", "C10", "C03"})
            add(f, "random_access_iterator::operator++" + ("(int)" if post_copy else ""), pre + [ASSUME("(unsigned long)%s <= sbv_n - sbv_c" % it.bl)], post[1:3], assigns=[it.ptr, it.index], ghosts=GB, mode="N", props={"C10"})
        for nm, post_copy in (("dec", False), ("postdec", True)):
            f = u.target("r_it_%s_%s" % (nm, P))
            pre, it = it_state(u, f.p[0], itrec, "ra")
            post = [("moves-one-wire-block-back", "%s == OLD(%s) - OLD(%s)" % (it.ptr, it.ptr, it.bl)), ("index-minus-1", "%s == (%s)(OLD(%s) - 1)" % (it.index, ITY, it.index))]
            if post_copy:
                r = ItV(u, "RET", retrec(f), "ra")
                post.append(("returns-old-iterator", "%s == OLD(%s) && %s == OLD(%s)" % (r.ptr, it.ptr, r.index, it.index)))
            add(f, "random_access_iterator::operator--" + ("(int)" if post_copy else ""), pre + [ASSUME("(unsigned long)%s <= sbv_c" % it.bl)], post, assigns=[it.ptr, it.index], ghosts=GB, props={"C12"})

        def arith_pre(it, n, sign):
            # keep the signed 64-bit product inside a small scope and the target inside the buffer
            prod = "((long)%s * (long)%s)" % (n, it.bl)
            tgt = "((long)sbv_c %s %s)" % ("+" if sign > 0 else "-", prod)
            # n == difference_type minimum is excluded for the subtracting forms: -n is not representable (as for ptrdiff_t)
            dmin = "(long)%s > %dL" % (n, -(1 << (nw - 1))) if sign < 0 else "1"
            return [ASSUME("(unsigned long)%s <= %dUL && (long)%s >= -%dL && (long)%s <= %dL && sbv_n <= (1UL << 50) && %s" % (it.bl, SCOPE, n, SCOPE, n, SCOPE, dmin)), ASSUME("%s >= 0 && %s <= (long)sbv_n" % (tgt, tgt))], prod

        for nm, sign, inplace, swapped in (("addeq", 1, True, False), ("add", 1, False, False), ("radd", 1, False, True), ("subeq", -1, True, False), ("sub", -1, False, False)):
            f = u.target("r_it_%s_%s" % (nm, P))
            ip, npar = (1, 0) if swapped else (0, 1)
            pre, it = it_state(u, f.p[ip], itrec, "ra")
            n = f.p[npar]
            ap, prod = arith_pre(it, n, sign)
            op = "+" if sign > 0 else "-"
            if inplace:
                post = [("pointer-moves-n-wire-blocks", "%s == OLD(%s) %s %s" % (it.ptr, it.ptr, op, prod.replace(it.bl, "OLD(%s)" % it.bl))), ("index-moves-n", "%s == (%s)(OLD(%s) %s %s)" % (it.index, ITY, it.index, op, n)),
                        ("block-length-unchanged", "%s == OLD(%s)" % (it.bl, it.bl)), ("returns-self", "RET == %s" % f.p[ip])]
                asg = [it.ptr, it.index]
            else:
                r = ItV(u, "RET", retrec(f), "ra")
                post = [("pointer-moves-n-wire-blocks", "%s == %s %s %s" % (r.ptr, it.ptr, op, prod)), ("index-moves-n", "%s == (%s)(%s %s %s)" % (r.index, ITY, it.index, op, n)),
                        ("block-length-kept", "%s == %s" % (r.bl, it.bl)), ("end-kept", "%s == %s" % (r.end, it.end))]
                asg = []
            name = {"addeq": "operator+=", "add": "operator+(n)", "radd": "operator+(n,it)", "subeq": "operator-=", "sub": "operator-(n)"}[nm]
            add(f, "random_access_iterator::" + name, pre + ap, post, assigns=asg, ghosts=GB, props={"C12"}, backends=PRODUCT_BACKENDS)
        f = u.target("r_it_index_" + P)
        pre, it = it_state(u, f.p[0], itrec, "ra")
        n = f.p[1]
        ap, prod = arith_pre(it, n, 1)
        ew = V(u, "RET", retrec(f))
        add(f, "random_access_iterator::operator[]", pre + ap, [("it[n]-is-entry-n-blocks-away", "%s == %s + %s && %s == %s && %s == %s" % (ew.begin, it.ptr, prod, ew.block_length(), it.bl, ew.end, it.end))],
            ghosts=GB, props={"C12", "C11"}, backends=PRODUCT_BACKENDS)
        f = u.target("r_it_diff_" + P)
        a, b = f.p[0], f.p[1]
        ia, ib = ItV(u, "(*%s)" % a, itrec, "ra"), ItV(u, "(*%s)" % b, itrec, "ra")
        add(f, "random_access_iterator::operator-(it)", [OBJ(a, itrec), OBJ(b, itrec)], [("distance-is-index-difference", "RET == (%s)(%s)(%s - %s)" % (DTY, ITY, ia.index, ib.index))], props={"C12", "C11"})
        for nm, op in (("eq", "=="), ("ne", "!="), ("lt", "<"), ("le", "<="), ("gt", ">"), ("ge", ">=")):
            f = u.target("r_it_%s_%s" % (nm, P))
            a, b = f.p[0], f.p[1]
            ia, ib = ItV(u, "(*%s)" % a, itrec, "ra"), ItV(u, "(*%s)" % b, itrec, "ra")
            add(f, "random_access_iterator::operator" + op, [OBJ(a, itrec), OBJ(b, itrec)], [("ordering-matches-indices", "RET == (_Bool)(%s %s %s)" % (ia.index, op, ib.index))], props={"C12", "C11"})
        # ---- laws over the real operators (lemma roots; bodies inlined)
        f = u.root("r_law_begin_plus_size_is_end_" + P)
        p, rec, vw = group_view(f)
        BL, N = wire(vw)
        lr = u.rec(retrec(f))
        lf = [x["name"] for x in lr["fields"]]
        smax = (1 << (nw - 1)) - 1
        add(f, "law begin()+size()==end()", [OBJ(p, rec)] + vw.wf() + [ASSUME("sbv_n < %d || ((unsigned long)%s <= %dUL && (unsigned long)%s <= %dUL)" % (HDR, BL, SCOPE, N, SCOPE))],
            [("equal-as-iterators", "RET.%s" % lf[2]), ("same-address-when-size-fits-difference_type", "SPEC_IMPLIES((unsigned long)%s <= %dUL, RET.%s == RET.%s)" % (N, smax, lf[0], lf[1]))],
            props={"C12"}, backends=PRODUCT_BACKENDS)
        f = u.root("r_law_index_is_deref_plus_" + P)
        pre, it = it_state(u, f.p[0], itrec, "ra")
        ap, prod = arith_pre(it, f.p[1], 1)
        add(f, "law it[n]==*(it+n)", pre + ap, [("same-entry", "RET.%s == RET.%s" % (lf[0], lf[1]))], ghosts=GB, props={"C12"}, backends=PRODUCT_BACKENDS)
        f = u.root("r_law_add_then_sub_" + P)
        pre, it = it_state(u, f.p[0], itrec, "ra")
        ap, prod = arith_pre(it, f.p[1], 1)
        ap.append(ASSUME("(long)%s > %dL" % (f.p[1], -(1 << (nw - 1)))))
        add(f, "law (it+n)-n==it and (it+n)-it==n", pre + ap, [("back-at-same-address", "RET.%s == RET.%s" % (lf[0], lf[1])), ("equal-as-iterators", "RET.%s" % lf[2]), ("distance-is-n", "RET.%s == %s" % (lf[3], f.p[1]))],
            ghosts=GB, props={"C12"}, backends=PRODUCT_BACKENDS)

        # ================= cursor range / input iterator
        f = u.target("r_cr_begin_" + P)
        crr = crec(u, f, 0)
        cf = [x["name"] for x in u.rec(crr)["fields"]]
        S = lambda k: "self->" + cf[k]
        for nm in ("begin", "end"):
            f = u.target("r_cr_%s_%s" % (nm, P))
            rf = [x["name"] for x in u.rec(retrec(f))["fields"]]
            idx = S(2) if nm == "begin" else "(%s)(%s + %s)" % (ITY, S(2), S(4))
            add(f, "cursor_range::" + nm, [OBJ("self", crr)], [("index", "RET.%s == %s" % (rf[0], idx)), ("same-cursor-blocklength-end", "RET.%s == %s && RET.%s == %s && RET.%s == %s" % (rf[1], S(0), rf[2], S(1), rf[3], S(3)))], props={"C04", "C11"})
        f = u.target("r_cr_size_" + P)
        add(f, "cursor_range::size", [OBJ("self", crr)], [("length", "RET == %s" % S(4))], props={"C04", "C11"})
        f = u.target("r_ci_deref_" + P)
        cir = crec(u, f, 0)
        nf = [x["name"] for x in u.rec(cir)["fields"]]
        ew = V(u, "RET", retrec(f))
        add(f, "input_iterator::operator*", [OBJ("self", cir), OBJ("self->" + nf[1], crec_)],
            [("entry-at-cursor-with-wire-block-length", "%s == self->%s->%s && %s == self->%s && %s == self->%s" % (ew.begin, nf[1], u.field(crec_, 0), ew.end, nf[3], ew.block_length(), nf[2]))], props={"C04", "C03", "C11"})
        f = u.target("r_ci_inc_" + P)
        add(f, "input_iterator::operator++", [OBJ("self", cir)], [("index-plus-1", "self->%s == (%s)(OLD(self->%s) + 1)" % (nf[0], ITY, nf[0])), ("returns-self", "RET == self")], assigns=["self->" + nf[0]], props={"C04"})
        for nm, op in (("eq", "=="), ("ne", "!=")):
            f = u.target("r_ci_%s_%s" % (nm, P))
            a, b = f.p[0], f.p[1]
            add(f, "input_iterator::operator" + op, [OBJ(a, cir), OBJ(b, cir)], [("compares-indices", "RET == (_Bool)(%s->%s %s %s->%s)" % (a, nf[0], op, b, nf[0]))], props={"C04", "C11"})

        # ================= nested group
        f = u.target("r_n_header_" + P)
        p, rec, vw = group_view(f)
        hw = V(u, "RET", retrec(f))
        add(f, "nested_group::get_header", [OBJ(p, rec)] + vw.wf(), [("header-in-bounds-or-reported", "%d <= sbv_n" % HDR), ("header-at-group-start", "%s == %s && %s == %s" % (hw.begin, vw.begin, hw.end, vw.end))], props={"C10", "C11", "C12"})
        f = u.target("r_n_size_" + P)
        p, rec, vw = group_view(f)
        add(f, "nested_group::size", [OBJ(p, rec)] + vw.wf(), [("wire-numInGroup", "RET == %s" % wire(vw)[1])], props={"C12", "C03", "C11"})
        f = u.target("r_n_empty_" + P)
        p, rec, vw = group_view(f)
        add(f, "nested_group::empty", [OBJ(p, rec)] + vw.wf(), [("empty-iff-zero", "RET == (_Bool)(%s == 0)" % wire(vw)[1])], props={"C12", "C11"})
        for nm, val in (("resize", None), ("clear", "0")):
            f = u.target("r_n_%s_%s" % (nm, P))
            p, rec, vw = group_view(f)
            v = f.p[1] if val is None else val
            post = [("header-in-bounds-or-reported", "%d <= sbv_n" % HDR)] + [("numInGroup-byte-%d" % k, "(uint8_t)%s[%d] == SPEC_BYTE((uint64_t)%s, %d, 0, %d)" % (vw.begin, bb + k, v, nb, k)) for k in range(nb)]
            add(f, "nested_group::" + nm, [OBJ(p, rec)] + vw.wf(), post, assigns=["%d <= sbv_n: __CPROVER_object_upto(%s + %d, %d)" % (HDR, vw.begin, bb, nb)], props={"C12", "C01", "C10"})
        for nm in ("begin", "end"):
            f = u.target("r_n_%s_%s" % (nm, P))
            p, rec, vw = group_view(f)
            BL, N = wire(vw)
            it = ItV(u, "RET", retrec(f), "fw")
            if nm == "begin":
                post = [("points-at-first-entry", "%s == %s + %d" % (it.ptr, vw.begin, HDR)), ("index-0", "%s == 0" % it.index)]
            else:
                post = [("index-is-size", "%s == %s" % (it.index, N))]
            post = [("header-in-bounds-or-reported", "%d <= sbv_n" % HDR)] + post + [("wire-block-length", "%s == %s" % (it.bl, BL)), ("keeps-end", "%s == %s" % (it.end, vw.end))]
            add(f, "nested_group::" + nm, [OBJ(p, rec)] + vw.wf(), post, props={"C12", "C03", "C10", "C11"})
        f = u.target("r_n_front_" + P)
        p, rec, vw = group_view(f)
        BL, N = wire(vw)
        ew = V(u, "RET", retrec(f))
        add(f, "nested_group::front", [OBJ(p, rec)] + vw.wf(), [("header-in-bounds-or-reported", "%d <= sbv_n" % HDR), ("non-empty-or-reported", "%s != 0" % N), ("first-entry-after-header", "%s == %s + %d" % (ew.begin, vw.begin, HDR)),
                                                            ("entry-carries-wire-blockLength", "%s == %s" % (ew.block_length(), BL))], props={"C12", "C03", "C10", "C11"})
        # generated entry size: wire block + inner flat group (u16 blockLength, u16 numInGroup)
        f = u.target("r_n_entry_size_" + P)
        erec = crec(u, f, 0)
        ev = V(u, "(*self)", erec)
        es = lambda b, bl: "((unsigned long)%s + 1 + SPEC_LOAD(%s + %s, 1, 0))" % (bl, b, bl)
        add(f, "entry::size_bytes (generated, block + data member)", [OBJ("self", erec)] + ev.wf(),
            [("data-prefix-in-bounds-or-reported", "(unsigned long)%s + 1 <= sbv_n" % ev.block_length()), ("wire-block-plus-data-member", "RET == %s" % es(ev.begin, ev.block_length()))], props={"C05", "C03", "C10", "C11"})
        # nested size_bytes: entry loop closed by a loop contract (iterator pointer tracks the accumulated size); unbounded in numInGroup
        f = u.target("r_n_size_bytes_" + P)
        p, rec, vw = group_view(f)
        BL, N = wire(vw)
        firec0 = None
        for r in u.recs.values():
            if r["qual"] == "sbepp::detail::forward_iterator" and ("g_" in r["pretty"]) and r["cname"] in u.text[u.text.index(f.mangled):u.text.index(f.mangled) + 200000][:0] + r["cname"]:
                pass
        # iterator record of this instantiation: return type of begin()
        fb = u.target("r_n_begin_" + P)
        firec0 = retrec(fb)
        itn = ItV(u, "__begin0", firec0, "fw")
        ite = ItV(u, "__end0", firec0, "fw")
        inv = ["%s <= %s" % (itn.index, ite.index), "%s == %s" % (ite.index, N), "%s == %s && %s == %s" % (itn.bl, BL, itn.end, vw.end),
               "__CPROVER_same_object(%s, %s)" % (itn.ptr, vw.begin), "__CPROVER_POINTER_OFFSET(%s) == (long)size" % itn.ptr, "%d <= size && size <= sbv_n" % HDR]
        lp = Loop(assigns=["__begin0", "size"], invariants=inv, decreases="(unsigned long)%s - (unsigned long)%s" % (ite.index, itn.index))
        add(f, "nested_group::size_bytes", [OBJ(p, rec)] + vw.wf(),
            [("header-in-bounds-or-reported", "%d <= sbv_n" % HDR), ("size-inside-buffer-or-reported", "RET <= sbv_n"), ("at-least-header", "RET >= %d" % HDR),
             ("empty-group-is-header-only", "SPEC_IMPLIES(%s == 0, RET == %d)" % (N, HDR))],
            props={"C05", "C10", "C11", "C06"}, loops={0: lp}, backends=PRODUCT_BACKENDS)
        # forward iterator
        f = u.target("r_fi_deref_" + P)
        firec = crec(u, f, 0)
        pre, it = it_state(u, f.p[0], firec, "fw")
        ew = V(u, "RET", retrec(f))
        add(f, "forward_iterator::operator*", pre, [("entry-at-iterator", "%s == %s && %s == %s && %s == %s" % (ew.begin, it.ptr, ew.end, it.end, ew.block_length(), it.bl))], ghosts=GB, props={"C12", "C03", "C11"})
        for nm, post_copy in (("inc", False), ("postinc", True)):
            f = u.target("r_fi_%s_%s" % (nm, P))
            # the iterator points into a real buffer: entry sizes are read from it
            itp = f.p[0]
            it = ItV(u, "(*%s)" % itp, firec, "fw")
            pre = [BUF("sbv_buf", "sbv_n"), OBJ(itp, firec), INRANGE(it.ptr, "sbv_buf", "sbv_buf + sbv_n", "sbv_c"), SET(it.end, "sbv_buf + sbv_n"), ASSUME("sbv_c <= sbv_n")]
            ES = es("OLD(%s)" % it.ptr, "OLD(%s)" % it.bl)
            post = [("entry-in-bounds-or-reported", "%s <= sbv_n - sbv_c" % ES), ("entry-i-starts-where-entry-i-1-ends", "%s == OLD(%s) + %s" % (it.ptr, it.ptr, ES)),
                    ("index-plus-1", "%s == (%s)(OLD(%s) + 1)" % (it.index, ITY, it.index))]
            if post_copy:
                r = ItV(u, "RET", retrec(f), "fw")
                post.append(("returns-old-iterator", "%s == OLD(%s) && %s == OLD(%s)" % (r.ptr, it.ptr, r.index, it.index)))
            add(f, "forward_iterator::operator++" + ("(int)" if post_copy else ""), pre, post, assigns=[it.ptr, it.index], ghosts=GB, props={"C12", "C05", "C10", "C03"}, backends=PRODUCT_BACKENDS)
        for nm, op in (("eq", "=="), ("ne", "!=")):
            f = u.target("r_fi_%s_%s" % (nm, P))
            a, b = f.p[0], f.p[1]
            ia, ib = ItV(u, "(*%s)" % a, firec, "fw"), ItV(u, "(*%s)" % b, firec, "fw")
            add(f, "forward_iterator::operator" + op, [OBJ(a, firec), OBJ(b, firec)], [("compares-indices", "RET == (_Bool)(%s %s %s)" % (ia.index, op, ib.index))], props={"C12", "C11"})
    return out
