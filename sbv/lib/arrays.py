"""dynamic_array_ref (<data>) as a vector bounded by its buffer (C13) and static_array_ref (C14); bounds (C10), frames (C11).

Two contracts per mutating <data> operation:
  structure  (unbounded in the buffer length): new length prefix, returned iterator, reporting, frame; the libc calls the lowered
             libstdc++ algorithms end in (memmove/memcpy/memset) are replaced by frame-only contracts (assumed dependency contracts)
  content    (bounded: buffer <= CAP bytes): element k of the new payload equals the vector model's element, for a ghost index k;
             CBMC's own memmove/memset models are inlined."""
import os
import re

from ..build import Unit, ToolError, ensure_generated, VERIF
from ..engine import Contract, BUF, OBJ, SET, ASSUME, INRANGE, Loop
from ..sbe import PRIMS, load
from ..views import V

SERVES = {"C13", "C14", "C10", "C11", "C01", "C02", "C05"}
CAP = 8
QUICK_DYN = [("l8c_le", 1, 0, "char"), ("l32u_be", 4, 1, "unsigned char")]
ALL_DYN = QUICK_DYN + [("l8u_le", 1, 0, "unsigned char"), ("l8i_le", 1, 0, "signed char"), ("l16c_le", 2, 0, "char"), ("l16u_be", 2, 1, "unsigned char"), ("l32c_le", 4, 0, "char"),
                       ("l32i_be", 4, 1, "signed char"), ("l64c_le", 8, 0, "char"), ("l64u_be", 8, 1, "unsigned char"), ("l8c_be", 1, 1, "char"), ("l64i_le", 8, 0, "signed char")]
ASSUMPTIONS = ["<data> element-moving operations: memmove, memset and strlen are ghost-index over-approximations of their ISO C meaning (engine.GHOST_STUBS: every destination byte arbitrary except one "
               "environment-chosen byte, which is exact; preconditions asserted), so content clauses hold for every element index and every buffer length; memcpy (length prefix codec) is CBMC's model",
               "insert(pos,first,last) for single-pass input iterators is bounded in the range length (<= 2 elements), unbounded otherwise"]
GH = [("unsigned long", "sbv_n")]


THOROUGH = [False]


def contracts(tier):
    allp = tier == "thorough"
    THOROUGH[0] = allp
    d1 = ensure_generated(os.path.join(VERIF, "corpus", "dims16.xml"))
    d2 = ensure_generated(os.path.join(VERIF, "corpus", "dims16be.xml"))
    u = Unit("arrays-all" if allp else "arrays", "arrays.cpp", incs=[d1, d2], defs=["-DSBV_ALL_DATA"] if allp else []).build()
    out = []
    for ID, lw, be, ety in (ALL_DYN if allp else QUICK_DYN):
        out += dyn_contracts(u, ID, lw, be, ety)
    for N in (1, 2, 3, 4, 8):
        out += static_contracts(u, N)
    return out


def dyn_contracts(u, ID, lw, be, ety):
    out = []
    T = "<%s>" % ID
    CAPL = max(CAP, lw + 4)  # content bound: at least 4 payload bytes for every prefix width
    MAXV = (1 << (8 * lw)) - 2 if lw < 8 else (1 << 64) - 2

    def tgt(name):
        return u.target("r_d_%s_%s" % (name, ID))

    def dview(f, i=0):
        p = f.p[i]
        rec = f.params[i]["rec"]
        return p, rec, V(u, "(*%s)" % p, rec)

    def add(f, name, pre, post, assigns=(), mode="S", props=("C13",), ghosts=GH, **kw):
        # heavy for SAT with multi-byte length prefixes (minutes): 1-byte prefixes on every change, the others in the thorough tier (best effort)
        heavy = kw.get("stubs") and (("input iterators" in name and "range<=1" not in kw.get("kind", "")) or (lw > 1 and "[content]" in name and any(x in name for x in ("insert(pos", "erase(first,last)"))))
        if heavy:
            if not THOROUGH[0]:
                return
            kw["optional"] = True
        if kw.get("stubs") and not kw.get("unwind"):
            kw["loops"] = dict(list(ambient.items()) + list((kw.get("loops") or {}).items()))
        c = Contract(f, "dynamic_array_ref::" + name + T, props=set(props), ghosts=list(ghosts), mode=mode, pre=pre, post=post, assigns=list(assigns), **kw)
        out.append(c)

    def LEN(vw):
        return load(vw.begin, lw, be)

    def FITS(x):
        """prefix and x payload bytes lie inside the buffer (subtractive: no wrap for 64-bit lengths)"""
        return "(%d <= sbv_n && (unsigned long)(%s) <= sbv_n - %d)" % (lw, x, lw)

    def lenbytes(vw, val):
        return [("length-prefix-byte-%d" % k, "(uint8_t)%s[%d] == SPEC_BYTE((uint64_t)(%s), %d, %d, %d)" % (vw.begin, k, val, lw, be, k)) for k in range(lw)]

    # ---------- observers
    f = tgt("size")
    p, rec, vw = dview(f)
    base = [OBJ(p, rec)] + vw.wf()
    add(f, "size", base, [("prefix-in-bounds-or-reported", "%d <= sbv_n" % lw), ("size-is-length-prefix", "RET == %s" % LEN(vw))], props={"C13", "C02", "C10", "C11"})
    f = tgt("sbe_size")
    p, rec, vw = dview(f)
    rr = f.j["ret_rec"]
    rv = "RET" + u.path_to(rr, "sbepp::detail::required_base") + "." + u.field(u.rec(rr)["bases"][0]["cname"], 0)
    add(f, "sbe_size", [OBJ(p, rec)] + vw.wf(), [("prefix-in-bounds-or-reported", "%d <= sbv_n" % lw), ("size-is-length-prefix", "%s == %s" % (rv, LEN(vw)))], props={"C13", "C11"})
    f = tgt("empty")
    p, rec, vw = dview(f)
    add(f, "empty", [OBJ(p, rec)] + vw.wf(), [("empty-iff-zero-length", "RET == (_Bool)(%s == 0)" % LEN(vw))], props={"C13", "C11"})
    f = tgt("max_size")
    add(f, "max_size", [], [("length-type-max-value", "(unsigned long)RET == %dUL" % MAXV)], props={"C13"})
    f = tgt("size_bytes")
    p, rec, vw = dview(f)
    add(f, "size_bytes", [OBJ(p, rec)] + vw.wf(), [("prefix-in-bounds-or-reported", "%d <= sbv_n" % lw), ("prefix-plus-payload", "RET == %d + (unsigned long)%s" % (lw, LEN(vw)))], props={"C05", "C13", "C10", "C11"})
    for nm in ("begin", "data"):
        f = tgt(nm)
        p, rec, vw = dview(f)
        add(f, nm, [OBJ(p, rec)] + vw.wf(), [("payload-in-bounds-or-reported", FITS(LEN(vw))), ("points-at-payload", "(char *)RET == %s + %d" % (vw.begin, lw))], props={"C13", "C10", "C11"})
    f = tgt("end")
    p, rec, vw = dview(f)
    add(f, "end", [OBJ(p, rec)] + vw.wf(), [("payload-in-bounds-or-reported", FITS(LEN(vw))), ("points-past-payload", "(char *)RET == %s + %d + (unsigned long)%s" % (vw.begin, lw, LEN(vw)))], props={"C13", "C10", "C11"})
    f = tgt("at")
    p, rec, vw = dview(f)
    pos = f.p[1]
    add(f, "operator[]", [OBJ(p, rec)] + vw.wf(), [("pos-below-size-or-reported", "(unsigned long)%s < (unsigned long)%s" % (pos, LEN(vw))), ("payload-in-bounds-or-reported", FITS(LEN(vw))),
                                                 ("element-reference", "(char *)RET == %s + %d + (unsigned long)%s" % (vw.begin, lw, pos))], props={"C13", "C10", "C11"})
    add(f, "operator[]", [OBJ(p, rec)] + vw.wf() + [ASSUME("%d <= sbv_n" % lw), ASSUME("%s && (unsigned long)%s < (unsigned long)%s" % (FITS(LEN(vw)), pos, LEN(vw)))],
        [("element-reference", "(char *)RET == %s + %d + (unsigned long)%s" % (vw.begin, lw, pos))], mode="N", props={"C10"})
    for nm, where in (("front", "0"), ("back", "(unsigned long)%s - 1")):
        f = tgt(nm)
        p, rec, vw = dview(f)
        w = where if "%s" not in where else where % LEN(vw)
        add(f, nm, [OBJ(p, rec)] + vw.wf(), [("non-empty-or-reported", "%s != 0" % LEN(vw)), ("payload-in-bounds-or-reported", FITS(LEN(vw))),
                                             ("element-reference", "(char *)RET == %s + %d + %s" % (vw.begin, lw, w))], props={"C13", "C10", "C11"})
    f = tgt("raw")
    p, rec, vw = dview(f)
    rw = V(u, "RET", f.j["ret_rec"])
    add(f, "raw", [OBJ(p, rec)] + vw.wf(), [("same-bytes", "%s == %s && %s == %s" % (rw.begin, vw.begin, rw.end, vw.end))], props={"C13", "C11"})

    # ---------- length-only mutators (no element movement)
    f = tgt("resize_di")
    p, rec, vw = dview(f)
    cnt = f.p[1]
    fits = FITS(cnt)
    add(f, "resize(n,default_init)", [OBJ(p, rec)] + vw.wf(), [("new-size-fits-or-reported", fits)] + lenbytes(vw, cnt), assigns=["%s: __CPROVER_object_upto(%s, %d)" % (fits, vw.begin, lw)], props={"C13", "C01", "C10"})
    add(f, "resize(n,default_init)", [OBJ(p, rec)] + vw.wf() + [ASSUME(fits)], lenbytes(vw, cnt), assigns=["__CPROVER_object_upto(%s, %d)" % (vw.begin, lw)], mode="N", props={"C10", "C13"})
    f = tgt("clear")
    p, rec, vw = dview(f)
    add(f, "clear", [OBJ(p, rec)] + vw.wf(), [("prefix-in-bounds-or-reported", "%d <= sbv_n" % lw)] + lenbytes(vw, "0"), assigns=["%d <= sbv_n: __CPROVER_object_upto(%s, %d)" % (lw, vw.begin, lw)], props={"C13", "C10"})
    f = tgt("pop_back")
    p, rec, vw = dview(f)
    add(f, "pop_back", [OBJ(p, rec)] + vw.wf() + [ASSUME("%d <= sbv_n" % lw)], [("non-empty-or-reported", "OLD((unsigned long)%s) != 0" % LEN(vw))] + lenbytes(vw, "OLD((unsigned long)%s) - 1" % LEN(vw)),
        assigns=["%d <= sbv_n: __CPROVER_object_upto(%s, %d)" % (lw, vw.begin, lw)], props={"C13", "C10"})
    f = tgt("push_back")
    p, rec, vw = dview(f)
    val = f.p[1]
    L0 = "OLD((unsigned long)%s)" % LEN(vw)
    pre = [OBJ(p, rec)] + vw.wf() + [ASSUME("%d <= sbv_n" % lw), ASSUME("(unsigned long)%s < %dUL" % (LEN(vw), MAXV))]
    add(f, "push_back", pre + [ASSUME("sbv_k < sbv_n && sbv_k + %d < sbv_n" % lw)], [("new-size-fits-or-reported", FITS("%s + 1" % L0))] + lenbytes(vw, "%s + 1" % L0) +
        [("appended-element", "(uint8_t)%s[%d + (unsigned long)%s] == (uint8_t)%s" % (vw.begin, lw, L0, val)),
         ("existing-elements-unchanged", "SPEC_IMPLIES(sbv_k < %s, (uint8_t)%s[%d + sbv_k] == OLD((uint8_t)%s[%d + sbv_k]))" % (L0, vw.begin, lw, vw.begin, lw))], ghosts=GH + [("unsigned long", "sbv_k")],
        assigns=["%s: __CPROVER_object_upto(%s, %d + (unsigned long)%s + 1)" % (FITS("(unsigned long)%s + 1" % LEN(vw)), vw.begin, lw, LEN(vw))], props={"C13", "C01", "C10"})

    # loop contracts of resize(count) / resize(count, value), attached wherever these two functions are reachable (so that an operation that
    # starts to call them is still decided): prefix == count, kept elements == loop entry, new elements == value up to i
    PINS = ["%d + sbv_k" % lw, "%d + sbv_j" % lw]  # the ghost-indexed elements are part of every counterexample
    ambient = {}
    for nm, hasv in (("resize", False), ("resize_v", True)):
        f = tgt(nm)
        p, rec, vw = dview(f)
        cnt = f.p[1]
        val = f.p[2] if hasv else "0"
        # the ghost index is clamped to element 0 when it is outside the buffer (branch-free: loop-entry snapshots are taken unconditionally)
        elk = "(uint8_t)%s[%d + (sbv_k & (0UL - (unsigned long)(sbv_k < sbv_n - %d)))]" % (vw.begin, lw, lw)
        inv = ["(unsigned long)old_size <= (unsigned long)i && (unsigned long)i <= (unsigned long)%s" % cnt, FITS(cnt)] + [e for _, e in lenbytes(vw, cnt)] + \
              ["SPEC_IMPLIES(sbv_k < sbv_n - %d && sbv_k < (unsigned long)old_size, %s == __CPROVER_loop_entry(%s))" % (lw, elk, elk),
               "SPEC_IMPLIES(sbv_k < sbv_n - %d && sbv_k >= (unsigned long)old_size && sbv_k < (unsigned long)i, %s == (uint8_t)%s)" % (lw, elk, val)]
        ambient[(f.mangled, 0)] = Loop(assigns=["i", "__CPROVER_object_upto(%s, sbv_n)" % vw.begin], invariants=inv, decreases="(unsigned long)%s - (unsigned long)i" % cnt)
    # ---------- element-moving mutators: structure and content, both unbounded
    GK = GH + [("unsigned long", "sbv_p"), ("unsigned long", "sbv_q"), ("unsigned long", "sbv_k"), ("unsigned long", "sbv_j")]
    libc = libc_contracts(u)

    def both(f, name, pre_extra, post_struct, post_content, frame_len, props=("C13", "C10"), iters=(), src=None, link=()):
        """iters: [(param name, ghost offset)] iterator parameters pointing into the payload.
        Two unbounded contracts: structure clauses (length prefix, returned iterator, reporting, frame; any buffer incl. prefix-only)
        and content clauses (ghost element indices sbv_k/sbv_j inside the buffer); memmove/memset are the ghost-index over-approximations of engine.GHOST_STUBS,
        `link` ties their ghost byte indices to sbv_k (one equation per libc call the operation makes)."""
        p, rec, vw = dview(f)
        pre = [OBJ(p, rec)] + vw.wf(pins=PINS)
        for prm, gh in iters:
            pre += [INRANGE(prm, "((%s *)(%s + %d))" % (ety, vw.begin, lw), "((%s *)(%s + sbv_n))" % (ety, vw.begin), gh), ASSUME("%d + %s <= sbv_n" % (lw, gh))]
        pre = pre[:3] + [ASSUME("%d <= sbv_n" % lw)] + pre[3:] + pre_extra
        frame = ["__CPROVER_object_upto(%s, sbv_n)" % vw.begin]
        inb = [ASSUME("sbv_k < sbv_n && sbv_j < sbv_n && sbv_k + %d < sbv_n && sbv_j + %d < sbv_n" % (lw, lw))] + [ASSUME(x) for x in link]
        add(f, name + " [structure]", pre, post_struct, assigns=frame, ghosts=GK, props=props, stubs=("memmove", "memset"))
        add(f, name + " [content]", pre + inb, post_content, assigns=frame, ghosts=GK, props=props, stubs=("memmove", "memset"))

    def el(vw, idx, old=False):
        e = "(uint8_t)%s[%d + %s]" % (vw.begin, lw, idx)
        return "OLD(%s)" % e if old else e

    # erase(pos)
    f = tgt("erase")
    p, rec, vw = dview(f)
    pos = f.p[1]
    L0 = "OLD((unsigned long)%s)" % LEN(vw)
    both(f, "erase(pos)", [], [("pos-inside-or-reported", "sbv_p < %s" % L0), ("payload-in-bounds-or-reported", FITS(L0))] + lenbytes(vw, "%s - 1" % L0) + [("returns-pos", "RET == OLD(%s)" % pos)],
         [("prefix-unchanged-before-pos", "SPEC_IMPLIES(sbv_k < sbv_p, %s == %s)" % (el(vw, "sbv_k"), el(vw, "sbv_k", True))),
          ("tail-shifted-left-by-one", "SPEC_IMPLIES(sbv_k >= sbv_p && sbv_k + 1 < %s && sbv_j == sbv_k + 1, %s == %s)" % (L0, el(vw, "sbv_k"), el(vw, "sbv_j", True)))],
         None, iters=[(pos, "sbv_p")], link=["sbv_mt0 == %d + sbv_k" % lw])
    # erase(first,last)
    f = tgt("erase_range")
    p, rec, vw = dview(f)
    first, last = f.p[1], f.p[2]
    both(f, "erase(first,last)", [ASSUME("sbv_p <= sbv_q")],
         [("range-inside-or-reported", "sbv_q <= %s" % L0), ("payload-in-bounds-or-reported", FITS(L0))] + lenbytes(vw, "%s - (sbv_q - sbv_p)" % L0) + [("returns-first", "RET == OLD(%s)" % first)],
         [("prefix-unchanged-before-first", "SPEC_IMPLIES(sbv_k < sbv_p, %s == %s)" % (el(vw, "sbv_k"), el(vw, "sbv_k", True))),
          ("tail-shifted-left", "SPEC_IMPLIES(sbv_k >= sbv_p && sbv_k + (sbv_q - sbv_p) < %s && sbv_j == sbv_k + (sbv_q - sbv_p), %s == %s)" % (L0, el(vw, "sbv_k"), el(vw, "sbv_j", True)))],
         None, iters=[(first, "sbv_p"), (last, "sbv_q")], link=["sbv_mt0 == %d + sbv_k" % lw])
    add(f, "erase(first,end()) is valid", [OBJ(p, rec)] + vw.wf(pins=PINS) + [ASSUME("%d <= sbv_n" % lw), INRANGE(first, "((%s *)(%s + %d))" % (ety, vw.begin, lw), "((%s *)(%s + sbv_n))" % (ety, vw.begin), "sbv_p"),
                                                                     INRANGE(last, "((%s *)(%s + %d))" % (ety, vw.begin, lw), "((%s *)(%s + sbv_n))" % (ety, vw.begin), "sbv_q"),
                                                                     ASSUME("%s && sbv_p <= sbv_q && sbv_q == (unsigned long)%s && sbv_n <= %d" % (FITS(LEN(vw)), LEN(vw), lw + 4))],
        lenbytes(vw, "sbv_p"), assigns=["__CPROVER_object_upto(%s, sbv_n)" % vw.begin], mode="N", ghosts=GK, props={"C13", "C10"}, kind="bounded(buffer<=%d)" % (lw + 4), unwind=CAPL + 2, backends=["z3", "kissat", "cvc5", "minisat"])
    # insert(pos, value)
    f = tgt("insert")
    p, rec, vw = dview(f)
    pos, val = f.p[1], f.p[2]
    notfull = [ASSUME("(unsigned long)%s < %dUL" % (LEN(vw), MAXV))]
    both(f, "insert(pos,value)", notfull,
         [("pos-inside-or-reported", "sbv_p <= %s" % L0), ("new-size-fits-or-reported", FITS("%s + 1" % L0))] + lenbytes(vw, "%s + 1" % L0) + [("returns-pos", "RET == OLD(%s)" % pos)],
         [("prefix-unchanged-before-pos", "SPEC_IMPLIES(sbv_k < sbv_p, %s == %s)" % (el(vw, "sbv_k"), el(vw, "sbv_k", True))),
          ("inserted-element", "SPEC_IMPLIES(sbv_k == sbv_p, %s == (uint8_t)%s)" % (el(vw, "sbv_k"), val)),
          ("tail-shifted-right-by-one", "SPEC_IMPLIES(sbv_k > sbv_p && sbv_k <= %s && sbv_j + 1 == sbv_k, %s == %s)" % (L0, el(vw, "sbv_k"), el(vw, "sbv_j", True)))],
         None, iters=[(pos, "sbv_p")], link=["sbv_mt0 == %d + sbv_k" % lw])
    # insert(pos, count, value)
    f = tgt("insert_n")
    p, rec, vw = dview(f)
    pos, cnt, val = f.p[1], f.p[2], f.p[3]
    room = [ASSUME("(unsigned long)%s <= %dUL && (unsigned long)%s <= %dUL - (unsigned long)%s" % (LEN(vw), MAXV, cnt, MAXV, LEN(vw)))]
    both(f, "insert(pos,count,value)", room,
         [("pos-inside-or-reported", "sbv_p <= %s" % L0), ("new-size-fits-or-reported", FITS("%s + (unsigned long)%s" % (L0, cnt)))] + lenbytes(vw, "%s + (unsigned long)%s" % (L0, cnt)) + [("returns-pos", "RET == OLD(%s)" % pos)],
         [("prefix-unchanged-before-pos", "SPEC_IMPLIES(sbv_k < sbv_p, %s == %s)" % (el(vw, "sbv_k"), el(vw, "sbv_k", True))),
          ("inserted-copies", "SPEC_IMPLIES(sbv_k >= sbv_p && sbv_k < sbv_p + (unsigned long)%s, %s == (uint8_t)%s)" % (cnt, el(vw, "sbv_k"), val)),
          ("tail-shifted-right-by-count", "SPEC_IMPLIES(sbv_k >= sbv_p + (unsigned long)%s && sbv_k < %s + (unsigned long)%s && sbv_j + (unsigned long)%s == sbv_k, %s == %s)" % (cnt, L0, cnt, cnt, el(vw, "sbv_k"), el(vw, "sbv_j", True)))],
         None, iters=[(pos, "sbv_p")], link=["sbv_mt0 == %d + sbv_k" % lw, "sbv_st0 == %d + sbv_k" % lw])
    # ---------- range sources: pointer pair, initializer_list, range object
    GM = GK + [("unsigned long", "sbv_m")]
    frame = lambda vw: ["__CPROVER_object_upto(%s, sbv_n)" % vw.begin]
    STUBS = ("memmove", "memset")

    def source(f, kind, i):
        """(C expression of the first source element, preconditions establishing a fresh source range of sbv_m elements)"""
        if kind == "ptr":
            first, last = f.p[i], f.p[i + 1]
            return first, [BUF(first, "sbv_m", cast=ety + " *"), SET(last, "%s + sbv_m" % first)]
        if kind == "ilist":
            il = f.p[i]
            irec = f.params[i]["rec"]
            arr, ln = "%s.%s" % (il, u.field(irec, 0)), "%s.%s" % (il, u.field(irec, 1))
            return arr, [BUF(arr, "sbv_m", cast=ety + " *"), SET(ln, "sbv_m")]
        if kind == "init":
            first, last = f.p[i], f.p[i + 1]
            fp = u.field(f.params[i]["rec"], 0)
            src = "%s.%s" % (first, fp)
            return src, [BUF(src, "sbv_m", cast=ety + " *"), SET("%s.%s" % (last, fp), "%s + sbv_m" % src)]
        if kind == "range":
            r = f.p[i]
            rrec = f.params[i]["rec"]
            b_, e_ = "(*%s).%s" % (r, u.field(rrec, 0)), "(*%s).%s" % (r, u.field(rrec, 1))
            return b_, [OBJ(r, rrec), BUF(b_, "sbv_m", cast=ety + " *"), SET(e_, "%s + sbv_m" % b_)]
        raise ToolError(kind)

    # insert(pos, first, last) / insert(pos, ilist): forward iterators: resize, one block move of the tail, one block copy of the range
    for nm, label, kind in (("insert_range", "insert(pos,first,last) forward iterators", "ptr"), ("insert_ilist", "insert(pos,ilist)", "ilist")):
        f = tgt(nm)
        p, rec, vw = dview(f)
        pos = f.p[1]
        src, srcpre = source(f, kind, 2)
        pre = [OBJ(p, rec)] + vw.wf(pins=PINS) + [ASSUME("%d <= sbv_n" % lw), INRANGE(pos, "((%s *)(%s + %d))" % (ety, vw.begin, lw), "((%s *)(%s + sbv_n))" % (ety, vw.begin), "sbv_p"), ASSUME("%d + sbv_p <= sbv_n" % lw)] + srcpre + \
              [ASSUME("(unsigned long)%s <= %dUL && sbv_m <= %dUL - (unsigned long)%s" % (LEN(vw), MAXV, MAXV, LEN(vw)))]
        post_s = [("pos-inside-or-reported", "sbv_p <= %s" % L0), ("new-size-fits-or-reported", FITS("%s + sbv_m" % L0))] + lenbytes(vw, "%s + sbv_m" % L0) + [("returns-pos", "RET == OLD(%s)" % pos)]
        post_c = [("prefix-unchanged-before-pos", "SPEC_IMPLIES(sbv_k < sbv_p, %s == %s)" % (el(vw, "sbv_k"), el(vw, "sbv_k", True))),
                  ("inserted-range-in-order", "SPEC_IMPLIES(sbv_k >= sbv_p && sbv_k < sbv_p + sbv_m, %s == (uint8_t)%s[sbv_r])" % (el(vw, "sbv_k"), src)),
                  ("tail-shifted-right-by-range-length", "SPEC_IMPLIES(sbv_k >= sbv_p + sbv_m && sbv_k < %s + sbv_m && sbv_j + sbv_m == sbv_k, %s == %s)" % (L0, el(vw, "sbv_k"), el(vw, "sbv_j", True)))]
        GR = GM + [("unsigned long", "sbv_r")]
        add(f, label + " [structure]", pre, post_s, assigns=frame(vw), ghosts=GR, props={"C13", "C10"}, stubs=STUBS)
        inb = [ASSUME("sbv_k < sbv_n && sbv_j < sbv_n && sbv_k + %d < sbv_n && sbv_j + %d < sbv_n" % (lw, lw)), ASSUME("sbv_m >= 1 && sbv_r < sbv_m && (sbv_k < sbv_p || sbv_k >= sbv_p + sbv_m || sbv_r == sbv_k - sbv_p)"),
               ASSUME("sbv_mt0 == %d + sbv_k && sbv_mt1 == %d + sbv_k" % (lw, lw))]
        add(f, label + " [content]", pre + inb, post_c, assigns=frame(vw), ghosts=GR, props={"C13", "C10"}, stubs=STUBS)
    # insert(pos, first, last) with single-pass input iterators: one insert(pos, value) per element (a loop in sbepp);
    # bounded in the range length only (<= 2 elements), unbounded in buffer, size and position
    f = tgt("insert_input")
    p, rec, vw = dview(f)
    pos = f.p[1]
    src, srcpre = source(f, "init", 2)
    GR = GM + [("unsigned long", "sbv_r")]
    pre = [OBJ(p, rec)] + vw.wf(pins=PINS) + [ASSUME("%d <= sbv_n" % lw), INRANGE(pos, "((%s *)(%s + %d))" % (ety, vw.begin, lw), "((%s *)(%s + sbv_n))" % (ety, vw.begin), "sbv_p"), ASSUME("%d + sbv_p <= sbv_n" % lw)] + srcpre + \
          [ASSUME("sbv_m <= 2 && (unsigned long)%s <= %dUL && sbv_m <= %dUL - (unsigned long)%s" % (LEN(vw), MAXV, MAXV, LEN(vw)))]
    post_s = [("pos-inside-or-reported", "sbv_m == 0 || sbv_p <= %s" % L0), ("new-size-fits-or-reported", "sbv_m == 0 || %s" % FITS("%s + sbv_m" % L0))] + lenbytes(vw, "%s + sbv_m" % L0) + [("returns-pos", "RET == OLD(%s)" % pos)]
    post_c = [("prefix-unchanged-before-pos", "SPEC_IMPLIES(sbv_k < sbv_p, %s == %s)" % (el(vw, "sbv_k"), el(vw, "sbv_k", True))),
              ("inserted-range-in-order", "SPEC_IMPLIES(sbv_k >= sbv_p && sbv_k < sbv_p + sbv_m, %s == (uint8_t)%s[sbv_r])" % (el(vw, "sbv_k"), src)),
              ("tail-shifted-right-by-range-length", "SPEC_IMPLIES(sbv_k >= sbv_p + sbv_m && sbv_k < %s + sbv_m && sbv_j + sbv_m == sbv_k, %s == %s)" % (L0, el(vw, "sbv_k"), el(vw, "sbv_j", True)))]
    kindb = "bounded(range<=2 elements; buffer, size, position, contents symbolic)"
    add(f, "insert(pos,first,last) input iterators [structure]", pre, post_s, assigns=frame(vw), ghosts=GR, props={"C13", "C10"}, stubs=STUBS, kind=kindb, unwind=4)
    inb = [ASSUME("sbv_k < sbv_n && sbv_j < sbv_n && sbv_k + %d < sbv_n && sbv_j + %d < sbv_n" % (lw, lw)), ASSUME("sbv_m >= 1 && sbv_r < sbv_m && (sbv_k < sbv_p || sbv_k >= sbv_p + sbv_m || sbv_r == sbv_k - sbv_p)"),
           ASSUME("sbv_mt0 == %d + sbv_k - sbv_m + 1 && sbv_mt1 == sbv_mt0 + 1 && sbv_mt2 == sbv_mt0 + 2" % lw)]
    add(f, "insert(pos,first,last) input iterators [content]", pre + inb, post_c, assigns=frame(vw), ghosts=GR, props={"C13", "C10"}, stubs=STUBS, kind=kindb, unwind=4)
    if lw == 1:
        # every-change variant: a one-element range (one loop iteration), everything else symbolic
        k1 = "bounded(range<=1 element; buffer, size, position, contents symbolic)"
        add(f, "insert(pos,first,last) input iterators, one element [content]", pre + [ASSUME("sbv_m <= 1")] + inb, post_c, assigns=frame(vw), ghosts=GR, props={"C13", "C10"}, stubs=STUBS, kind=k1, unwind=3, timeout=150)

    # assign(first,last) / assign(ilist) / assign_range(r): copy, then set the length (documented precondition: the range fits the buffer)
    for nm, label, kind in (("assign_range_it", "assign(first,last)", "ptr"), ("assign_ilist", "assign(ilist)", "ilist"), ("assign_range", "assign_range(r)", "range")):
        f = tgt(nm)
        p, rec, vw = dview(f)
        src, srcpre = source(f, kind, 1)
        pre = [OBJ(p, rec)] + vw.wf(pins=PINS) + srcpre + [ASSUME("%d <= sbv_n && sbv_m <= sbv_n - %d && sbv_m <= %dUL" % (lw, lw, MAXV))]
        add(f, label + " [structure]", pre, lenbytes(vw, "sbv_m"), assigns=frame(vw), mode="N", ghosts=GM, props={"C13", "C10", "C01"}, stubs=STUBS)
        add(f, label + " [content]", pre + [ASSUME("sbv_k < sbv_m && sbv_mt0 == %d + sbv_k" % lw)], [("elements-are-the-range", "%s == (uint8_t)%s[sbv_k]" % (el(vw, "sbv_k"), src))], assigns=frame(vw), mode="N", ghosts=GM,
            props={"C13", "C10", "C01"}, stubs=STUBS)
    # assign(ilist) checks the size itself: a list that does not fit is reported and nothing is written
    f = tgt("assign_ilist")
    p, rec, vw = dview(f)
    src, srcpre = source(f, "ilist", 1)
    add(f, "assign(ilist) [reporting]", [OBJ(p, rec)] + vw.wf(pins=PINS) + srcpre + [ASSUME("sbv_m <= %dUL" % MAXV)], [("list-fits-or-reported", FITS("sbv_m"))] + lenbytes(vw, "sbv_m"),
        assigns=["%s: __CPROVER_object_upto(%s, sbv_n)" % (FITS("sbv_m"), vw.begin)], ghosts=GM, props={"C13", "C10"}, stubs=STUBS)
    # assign_string(const char*): strlen is the ghost-length stub (engine.GHOST_STUBS): unbounded in the string length
    f = tgt("assign_string")
    p, rec, vw = dview(f)
    sp = f.p[1]
    pre = [OBJ(p, rec)] + vw.wf(pins=PINS) + [BUF(sp, "sbv_m"), ASSUME("sbv_l < sbv_m && sbv_l <= %dUL" % MAXV), ASSUME("%d <= sbv_n" % lw), ASSUME("SPEC_NATIVE_ONLY(strlen(%s) == sbv_l)" % sp)]
    SST = ("memmove", "memset", "strlen")
    # const char* -> value_type* with a different value_type: libstdc++ copies element-wise (__copy_m loop), closed by a loop contract
    skw = {}
    sbound = []
    if ety != "char":
        # libstdc++ copies element-wise here (no memmove); a loop contract over the symbolic-size buffers does not get through CBMC's
        # propositional conversion within minutes, so the string length is bounded instead (buffer, contents and position stay symbolic)
        sbound = [ASSUME("sbv_l <= 3")]
        skw = dict(kind="bounded(string<=3 chars)", unwind=5)
    pre = pre + sbound
    add(f, "assign_string [structure]", pre, [("new-size-fits-or-reported", FITS("sbv_l"))] + lenbytes(vw, "sbv_l"), assigns=["%s: __CPROVER_object_upto(%s, sbv_n)" % (FITS("sbv_l"), vw.begin)], ghosts=GM, props={"C13", "C10", "C01"}, stubs=SST, **skw)
    add(f, "assign_string [content]", pre + [ASSUME("sbv_k < sbv_l && sbv_mt0 == %d + sbv_k" % lw)], [("elements-are-the-string", "%s == (uint8_t)%s[sbv_k]" % (el(vw, "sbv_k"), sp))],
        assigns=["%s: __CPROVER_object_upto(%s, sbv_n)" % (FITS("sbv_l"), vw.begin)], ghosts=GM, props={"C13", "C10", "C01"}, stubs=SST, **skw)
    # the same operations without the "new length is representable" assumption: capacity overflow must be reported, not truncated
    f = tgt("insert_n")
    p, rec, vw = dview(f)
    pos, cnt, val = f.p[1], f.p[2], f.p[3]
    pre = [OBJ(p, rec)] + vw.wf(pins=PINS) + [ASSUME("%d <= sbv_n" % lw), INRANGE(pos, "((%s *)(%s + %d))" % (ety, vw.begin, lw), "((%s *)(%s + sbv_n))" % (ety, vw.begin), "sbv_p"), ASSUME("%d + sbv_p <= sbv_n" % lw)]
    add(f, "insert(pos,count,value) [structure, any count]", pre,
        [("pos-inside-or-reported", "sbv_p <= %s" % L0), ("new-size-representable-and-fits-or-reported", "%s <= %dUL && (unsigned long)%s <= %dUL - %s && %s" % (L0, MAXV, cnt, MAXV, L0, FITS("%s + (unsigned long)%s" % (L0, cnt))))],
        assigns=frame(vw), ghosts=GK, props={"C13", "C10"}, stubs=STUBS)
    if lw < 8:
        f = tgt("assign_string")
        p, rec, vw = dview(f)
        sp = f.p[1]
        pre = [OBJ(p, rec)] + vw.wf(pins=PINS) + [BUF(sp, "sbv_m"), ASSUME("sbv_l < sbv_m"), ASSUME("%d <= sbv_n" % lw), ASSUME("SPEC_NATIVE_ONLY(strlen(%s) == sbv_l)" % sp)] + sbound
        add(f, "assign_string [structure, any length]", pre, [("new-size-representable-and-fits-or-reported", "sbv_l <= %dUL && %s" % (MAXV, FITS("sbv_l")))], assigns=frame(vw), ghosts=GM, props={"C13", "C10"}, stubs=SST, **skw)
    # assign(count, value)
    f = tgt("assign_n")
    p, rec, vw = dview(f)
    cnt, val = f.p[1], f.p[2]
    both(f, "assign(count,value)", [],
         [("new-size-fits-or-reported", FITS(cnt))] + lenbytes(vw, cnt),
         [("all-elements-are-value", "SPEC_IMPLIES(sbv_k < (unsigned long)%s, %s == (uint8_t)%s)" % (cnt, el(vw, "sbv_k"), val))], None, link=["sbv_st0 == %d + sbv_k" % lw])
    # resize(count) / resize(count, value): the initialising loop is written in sbepp itself and closed by a loop contract
    for nm, hasv in (("resize", False), ("resize_v", True)):
        f = tgt(nm)
        p, rec, vw = dview(f)
        cnt = f.p[1]
        val = f.p[2] if hasv else "0"
        pre = [OBJ(p, rec)] + vw.wf(pins=PINS) + [ASSUME("%d <= sbv_n" % lw), ASSUME("sbv_k < sbv_n && sbv_k + %d < sbv_n" % lw)]
        add(f, "resize(count%s)" % (",value" if hasv else ""), pre,
            [("new-size-fits-or-reported", FITS(cnt))] + lenbytes(vw, cnt) +
            [("kept-elements-unchanged", "SPEC_IMPLIES(sbv_k < %s && sbv_k < (unsigned long)%s, %s == %s)" % (L0, cnt, el(vw, "sbv_k"), el(vw, "sbv_k", True))),
             ("new-elements-initialised", "SPEC_IMPLIES(sbv_k >= %s && sbv_k < (unsigned long)%s, %s == (uint8_t)%s)" % (L0, cnt, el(vw, "sbv_k"), val))],
            assigns=frame(vw), ghosts=GK, props={"C13", "C10", "C01"}, loops=dict(ambient))
    return out


def libc_contracts(u):
    """frame-only contracts for the C library calls the lowered algorithms end in (assumed dependency contracts)"""
    return []


def static_contracts(u, N):
    out = []
    T = "<N=%d>" % N

    def tgt(name):
        return u.target("r_a_%s_%d" % (name, N))

    def add(f, name, pre, post, assigns=(), mode="S", props=("C14",), ghosts=GH, **kw):
        out.append(Contract(f, "static_array_ref::" + name + T, props=set(props), ghosts=list(ghosts), mode=mode, pre=pre, post=post, assigns=list(assigns), unwind=N + 3, kind="exact-by-width(N=%d)" % N, **kw))

    def av(f, i=0):
        p = f.p[i]
        rec = f.params[i]["rec"]
        return p, rec, V(u, "(*%s)" % p, rec)

    fits = "%d <= sbv_n" % N
    # strlen: index of first NUL or N
    f = tgt("strlen")
    p, rec, vw = av(f)
    base = [OBJ(p, rec)] + vw.wf()
    first_nul = " && ".join(["1"] + ["%s[%d] != 0" % (vw.begin, i) for i in range(N)])
    post = [("array-in-bounds-or-reported", fits), ("result-at-most-N", "RET <= %d" % N),
            ("all-before-result-are-non-NUL", " && ".join("(RET <= %d || %s[%d] != 0)" % (i, vw.begin, i) for i in range(N))),
            ("result-is-NUL-or-N", "RET == %d || %s" % (N, " || ".join("(RET == %d && %s[%d] == 0)" % (i, vw.begin, i) for i in range(N))))]
    add(f, "strlen", base, post, props={"C14", "C10", "C11"})
    f = tgt("strlen_r")
    p, rec, vw = av(f)
    post = [("array-in-bounds-or-reported", fits), ("result-at-most-N", "RET <= %d" % N),
            ("all-from-result-are-NUL", " && ".join("(RET > %d || %s[%d] == 0)" % (i, vw.begin, i) for i in range(N))),
            ("result-is-0-or-after-non-NUL", "RET == 0 || %s" % " || ".join("(RET == %d && %s[%d] != 0)" % (i + 1, vw.begin, i) for i in range(N)))]
    add(f, "strlen_r", [OBJ(p, rec)] + vw.wf(), post, props={"C14", "C10", "C11"})
    # assign_string(const char*, eos)
    f = tgt("assign_string")
    p, rec, vw = av(f)
    s, mode = f.p[1], f.p[2]
    GS = GH + [("unsigned long", "sbv_m")]
    # str: fresh C string buffer of sbv_m bytes whose last byte is NUL and which has length L = first NUL
    pre = [OBJ(p, rec)] + vw.wf() + [BUF(s, "sbv_m"), ASSUME("sbv_m >= 1 && sbv_m <= %d" % (N + 2)), ASSUME("%s[sbv_m - 1] == 0" % s), ASSUME("%s >= 0 && %s <= 2" % (mode, mode))]
    Lexpr = "(" + " ".join("%s[%d] == 0 ? %dUL :" % (s, i, i) for i in range(N + 1)) + " %dUL)" % (N + 1)
    # the C string length is computed without reading past the NUL
    strl = "(" + " ".join("(%d < sbv_m && %s[%d] == 0) ? %dUL :" % (i, s, i, i) for i in range(N + 2)) + " %dUL)" % (N + 2)
    post = [("array-in-bounds-or-reported", fits), ("string-fits-or-reported", "%s <= %d" % (strl, N)), ("returns-iterator-past-content", "RET == %s + %s" % (vw.begin, strl))]
    for i in range(N):
        post.append(("byte-%d" % i, "(%s > %d ? %s[%d] == %s[%d < sbv_m ? %d : 0] : ((%s == 2 || (%s == 1 && %s == %d)) ? %s[%d] == 0 : %s[%d] == OLD(%s[%d])))" % (
            strl, i, vw.begin, i, s, i, i, mode, mode, strl, i, vw.begin, i, vw.begin, i, vw.begin, i)))
    add(f, "assign_string(const char*,eos)", pre, post[:3], assigns=["%s: __CPROVER_object_upto(%s, %d)" % (fits, vw.begin, N)], ghosts=GS, props={"C14", "C10"})
    add(f, "assign_string(const char*,eos)", pre + [ASSUME(fits), ASSUME("%s <= %d" % (strl, N))], post[2:], assigns=["__CPROVER_object_upto(%s, %d)" % (vw.begin, N)], mode="N", ghosts=GS, props={"C14", "C10", "C01"})
    # fill / assign(count,value)
    f = tgt("fill")
    p, rec, vw = av(f)
    add(f, "fill", [OBJ(p, rec)] + vw.wf(), [("array-in-bounds-or-reported", fits)] + [("byte-%d" % i, "%s[%d] == %s" % (vw.begin, i, f.p[1])) for i in range(N)],
        assigns=["%s: __CPROVER_object_upto(%s, %d)" % (fits, vw.begin, N)], props={"C14", "C10"})
    f = tgt("assign_n")
    p, rec, vw = av(f)
    cnt, val = f.p[1], f.p[2]
    add(f, "assign(count,value)", [OBJ(p, rec)] + vw.wf(), [("array-in-bounds-or-reported", fits), ("count-fits-or-reported", "%s <= %d" % (cnt, N)), ("returns-iterator-past-written", "RET == %s + %s" % (vw.begin, cnt))],
        assigns=["%s: __CPROVER_object_upto(%s, %d)" % (fits, vw.begin, N)], props={"C14", "C10"})
    add(f, "assign(count,value)", [OBJ(p, rec)] + vw.wf() + [ASSUME(fits), ASSUME("%s <= %d" % (cnt, N))], [("returns-iterator-past-written", "RET == %s + %s" % (vw.begin, cnt))] +
        [("byte-%d" % i, "%s[%d] == (%d < %s ? %s : OLD(%s[%d]))" % (vw.begin, i, i, cnt, val, vw.begin, i)) for i in range(N)],
        assigns=["__CPROVER_object_upto(%s, %d)" % (vw.begin, N)], mode="N", props={"C14", "C10"})
    # assign(first,last) with the source inside the documented precondition
    f = tgt("assign_it")
    p, rec, vw = av(f)
    first, last = f.p[1], f.p[2]
    GS2 = GH + [("unsigned long", "sbv_m")]
    pre = [OBJ(p, rec)] + vw.wf() + [ASSUME(fits), BUF(first, "sbv_m"), ASSUME("sbv_m <= %d" % N), SET(last, "%s + sbv_m" % first)]
    add(f, "assign(first,last)", pre, [("returns-iterator-past-written", "RET == %s + sbv_m" % vw.begin)] + [("byte-%d" % i, "%s[%d] == (%d < sbv_m ? %s[%d < sbv_m ? %d : 0] : OLD(%s[%d]))" % (vw.begin, i, i, first, i, i, vw.begin, i)) for i in range(N)],
        assigns=["__CPROVER_object_upto(%s, %d)" % (vw.begin, N)], mode="N", ghosts=GS2, props={"C14", "C10"})
    # assign_range(r) / assign_string(r, eos) / assign(ilist): range object and initializer_list sources
    def byte_after(i, src, mode=None):
        pad = "OLD(%s[%d])" % (vw.begin, i) if mode is None else "((%s == 2 || (%s == 1 && sbv_m == %d)) ? 0 : OLD(%s[%d]))" % (mode, mode, i, vw.begin, i)
        return "%s[%d] == (%d < sbv_m ? %s[%d < sbv_m ? %d : 0] : %s)" % (vw.begin, i, i, src, i, i, pad)

    f = tgt("assign_range")
    p, rec, vw = av(f)
    r = f.p[1]
    rrec = f.params[1]["rec"]
    rb, re_ = "(*%s).%s" % (r, u.field(rrec, 0)), "(*%s).%s" % (r, u.field(rrec, 1))
    srcpre = [OBJ(r, rrec), BUF(rb, "sbv_m"), SET(re_, "%s + sbv_m" % rb)]
    add(f, "assign_range(r)", [OBJ(p, rec)] + vw.wf() + [ASSUME(fits)] + srcpre + [ASSUME("sbv_m <= %d" % N)], [("returns-iterator-past-written", "RET == %s + sbv_m" % vw.begin)] + [("byte-%d" % i, byte_after(i, rb)) for i in range(N)],
        assigns=["__CPROVER_object_upto(%s, %d)" % (vw.begin, N)], mode="N", ghosts=GS2, props={"C14", "C10", "C01"})
    f = tgt("assign_string_range")
    p, rec, vw = av(f)
    r, mode = f.p[1], f.p[2]
    rrec = f.params[1]["rec"]
    rb, re_ = "(*%s).%s" % (r, u.field(rrec, 0)), "(*%s).%s" % (r, u.field(rrec, 1))
    srcpre = [OBJ(r, rrec), BUF(rb, "sbv_m"), SET(re_, "%s + sbv_m" % rb)]
    add(f, "assign_string(range,eos)", [OBJ(p, rec)] + vw.wf() + [ASSUME(fits)] + srcpre + [ASSUME("sbv_m <= %d" % N), ASSUME("%s >= 0 && %s <= 2" % (mode, mode))],
        [("returns-iterator-past-content", "RET == %s + sbv_m" % vw.begin)] + [("byte-%d" % i, byte_after(i, rb, mode)) for i in range(N)],
        assigns=["__CPROVER_object_upto(%s, %d)" % (vw.begin, N)], mode="N", ghosts=GS2, props={"C14", "C10", "C01"})
    f = tgt("assign_ilist")
    p, rec, vw = av(f)
    il = f.p[1]
    irec = f.params[1]["rec"]
    ia, iln = "%s.%s" % (il, u.field(irec, 0)), "%s.%s" % (il, u.field(irec, 1))
    srcpre = [BUF(ia, "sbv_m"), SET(iln, "sbv_m")]
    add(f, "assign(ilist)", [OBJ(p, rec)] + vw.wf() + srcpre + [ASSUME("sbv_m <= %d" % (N + 2))], [("array-in-bounds-or-reported", fits), ("list-fits-or-reported", "sbv_m <= %d" % N), ("returns-iterator-past-written", "RET == %s + sbv_m" % vw.begin)],
        assigns=["%s && sbv_m <= %d: __CPROVER_object_upto(%s, %d)" % (fits, N, vw.begin, N)], ghosts=GS2, props={"C14", "C10"})
    add(f, "assign(ilist)", [OBJ(p, rec)] + vw.wf() + [ASSUME(fits)] + srcpre + [ASSUME("sbv_m <= %d" % N)], [("returns-iterator-past-written", "RET == %s + sbv_m" % vw.begin)] + [("byte-%d" % i, byte_after(i, ia)) for i in range(N)],
        assigns=["__CPROVER_object_upto(%s, %d)" % (vw.begin, N)], mode="N", ghosts=GS2, props={"C14", "C10", "C01"})
    # element access, iterators, sizes
    f = tgt("at")
    p, rec, vw = av(f)
    add(f, "operator[]", [OBJ(p, rec)] + vw.wf(), [("pos-below-N-or-reported", "%s < %d" % (f.p[1], N)), ("array-in-bounds-or-reported", fits), ("element-reference", "RET == %s + %s" % (vw.begin, f.p[1]))], props={"C14", "C10", "C11"})
    for nm, off in (("data", 0), ("begin", 0), ("end", N)):
        f = tgt(nm)
        p, rec, vw = av(f)
        add(f, nm, [OBJ(p, rec)] + vw.wf(), [("array-in-bounds-or-reported", fits), ("pointer", "RET == %s + %d" % (vw.begin, off))], props={"C14", "C10", "C11"})
    f = tgt("raw")
    p, rec, vw = av(f)
    rw = V(u, "RET", f.j["ret_rec"])
    add(f, "raw", [OBJ(p, rec)] + vw.wf(), [("same-bytes-and-same-bound", "%s == %s && %s == %s" % (rw.begin, vw.begin, rw.end, vw.end))], props={"C14", "C10", "C11"})
    f = tgt("size")
    add(f, "size", [], [("N", "RET == %d" % N)], props={"C14", "C05"})
    f = tgt("size_bytes")
    p, rec, vw = av(f)
    add(f, "size_bytes", [OBJ(p, rec)] + vw.wf(), [("N", "RET == %d" % N)], props={"C14", "C05", "C11"})
    return out
