"""dynamic_array_ref (<data>) as a vector bounded by its buffer (C13) and static_array_ref (C14); bounds (C10), frames (C11).

Two contracts per mutating <data> operation:
  structure  (unbounded in the buffer length): new length prefix, returned iterator, reporting, frame; the libc calls the lowered
             libstdc++ algorithms end in (memmove/memcpy/memset) are replaced by frame-only contracts (assumed dependency contracts)
  content    (bounded: buffer <= CAP bytes): element k of the new payload equals the vector model's element, for a ghost index k;
             CBMC's own memmove/memset models are inlined."""
import os

from ..build import Unit, ToolError, ensure_generated, VERIF
from ..engine import Contract, BUF, OBJ, SET, ASSUME, INRANGE, Loop
from ..sbe import PRIMS, load
from ..views import V

SERVES = {"C13", "C14", "C10", "C11", "C01", "C02", "C05"}
CAP = 8
QUICK_DYN = [("l8c_le", 1, 0, "char"), ("l32u_be", 4, 1, "unsigned char")]
ALL_DYN = QUICK_DYN + [("l8u_le", 1, 0, "unsigned char"), ("l8i_le", 1, 0, "signed char"), ("l16c_le", 2, 0, "char"), ("l16u_be", 2, 1, "unsigned char"), ("l32c_le", 4, 0, "char"),
                       ("l32i_be", 4, 1, "signed char"), ("l64c_le", 8, 0, "char"), ("l64u_be", 8, 1, "unsigned char"), ("l8c_be", 1, 1, "char"), ("l64i_le", 8, 0, "signed char")]
ASSUMPTIONS = ["<data> structure contracts: memmove/memcpy/memset are replaced by frame-only contracts (assigns exactly n bytes at dest, returns dest); their content behaviour is CBMC's model in the bounded content contracts",
               "<data> content clauses are bounded: buffer <= max(%d, prefix + 4) bytes (ghost element index, both symbolic)" % CAP]
GH = [("unsigned long", "sbv_n")]


THOROUGH = [False]


def contracts(tier):
    allp = tier == "thorough"
    THOROUGH[0] = allp
    d1 = ensure_generated(os.path.join(VERIF, "corpus", "dims16.xml"))
    d2 = ensure_generated(os.path.join(VERIF, "corpus", "dims16be.xml"))
    u = Unit("arrays-all" if allp else "arrays", "arrays.cpp", incs=[d1, d2], defs=["-DSBV_ALL_DATA"] if allp else []).build()
    out = []
    for ID, lw, be, ety in (ALL_DYN if allp else QUICK_DYN):
        out += dyn_contracts(u, ID, lw, be, ety)
    for N in (1, 2, 3, 4, 8):
        out += static_contracts(u, N)
    return out


def dyn_contracts(u, ID, lw, be, ety):
    out = []
    T = "<%s>" % ID
    CAPL = max(CAP, lw + 4)  # content bound: at least 4 payload bytes for every prefix width
    MAXV = (1 << (8 * lw)) - 2 if lw < 8 else (1 << 64) - 2

    def tgt(name):
        return u.target("r_d_%s_%s" % (name, ID))

    def dview(f, i=0):
        p = f.p[i]
        rec = f.params[i]["rec"]
        return p, rec, V(u, "(*%s)" % p, rec)

    def add(f, name, pre, post, assigns=(), mode="S", props=("C13",), ghosts=GH, **kw):
        out.append(Contract(f, "dynamic_array_ref::" + name + T, props=set(props), ghosts=list(ghosts), mode=mode, pre=pre, post=post, assigns=list(assigns), **kw))

    def LEN(vw):
        return load(vw.begin, lw, be)

    def FITS(x):
        """prefix and x payload bytes lie inside the buffer (subtractive: no wrap for 64-bit lengths)"""
        return "(%d <= sbv_n && (unsigned long)(%s) <= sbv_n - %d)" % (lw, x, lw)

    def lenbytes(vw, val):
        return [("length-prefix-byte-%d" % k, "(uint8_t)%s[%d] == SPEC_BYTE((uint64_t)(%s), %d, %d, %d)" % (vw.begin, k, val, lw, be, k)) for k in range(lw)]

    # ---------- observers
    f = tgt("size")
    p, rec, vw = dview(f)
    base = [OBJ(p, rec)] + vw.wf()
    add(f, "size", base, [("prefix-in-bounds-or-reported", "%d <= sbv_n" % lw), ("size-is-length-prefix", "RET == %s" % LEN(vw))], props={"C13", "C02", "C10", "C11"})
    f = tgt("sbe_size")
    p, rec, vw = dview(f)
    rr = f.j["ret_rec"]
    rv = "RET" + u.path_to(rr, "sbepp::detail::required_base") + "." + u.field(u.rec(rr)["bases"][0]["cname"], 0)
    add(f, "sbe_size", [OBJ(p, rec)] + vw.wf(), [("prefix-in-bounds-or-reported", "%d <= sbv_n" % lw), ("size-is-length-prefix", "%s == %s" % (rv, LEN(vw)))], props={"C13", "C11"})
    f = tgt("empty")
    p, rec, vw = dview(f)
    add(f, "empty", [OBJ(p, rec)] + vw.wf(), [("empty-iff-zero-length", "RET == (_Bool)(%s == 0)" % LEN(vw))], props={"C13", "C11"})
    f = tgt("max_size")
    add(f, "max_size", [], [("length-type-max-value", "(unsigned long)RET == %dUL" % MAXV)], props={"C13"})
    f = tgt("size_bytes")
    p, rec, vw = dview(f)
    add(f, "size_bytes", [OBJ(p, rec)] + vw.wf(), [("prefix-in-bounds-or-reported", "%d <= sbv_n" % lw), ("prefix-plus-payload", "RET == %d + (unsigned long)%s" % (lw, LEN(vw)))], props={"C05", "C13", "C10", "C11"})
    for nm in ("begin", "data"):
        f = tgt(nm)
        p, rec, vw = dview(f)
        add(f, nm, [OBJ(p, rec)] + vw.wf(), [("payload-in-bounds-or-reported", FITS(LEN(vw))), ("points-at-payload", "(char *)RET == %s + %d" % (vw.begin, lw))], props={"C13", "C10", "C11"})
    f = tgt("end")
    p, rec, vw = dview(f)
    add(f, "end", [OBJ(p, rec)] + vw.wf(), [("payload-in-bounds-or-reported", FITS(LEN(vw))), ("points-past-payload", "(char *)RET == %s + %d + (unsigned long)%s" % (vw.begin, lw, LEN(vw)))], props={"C13", "C10", "C11"})
    f = tgt("at")
    p, rec, vw = dview(f)
    pos = f.p[1]
    add(f, "operator[]", [OBJ(p, rec)] + vw.wf(), [("pos-below-size-or-reported", "(unsigned long)%s < (unsigned long)%s" % (pos, LEN(vw))), ("payload-in-bounds-or-reported", FITS(LEN(vw))),
                                                 ("element-reference", "(char *)RET == %s + %d + (unsigned long)%s" % (vw.begin, lw, pos))], props={"C13", "C10", "C11"})
    add(f, "operator[]", [OBJ(p, rec)] + vw.wf() + [ASSUME("%d <= sbv_n" % lw), ASSUME("%s && (unsigned long)%s < (unsigned long)%s" % (FITS(LEN(vw)), pos, LEN(vw)))],
        [("element-reference", "(char *)RET == %s + %d + (unsigned long)%s" % (vw.begin, lw, pos))], mode="N", props={"C10"})
    for nm, where in (("front", "0"), ("back", "(unsigned long)%s - 1")):
        f = tgt(nm)
        p, rec, vw = dview(f)
        w = where if "%s" not in where else where % LEN(vw)
        add(f, nm, [OBJ(p, rec)] + vw.wf(), [("non-empty-or-reported", "%s != 0" % LEN(vw)), ("payload-in-bounds-or-reported", FITS(LEN(vw))),
                                             ("element-reference", "(char *)RET == %s + %d + %s" % (vw.begin, lw, w))], props={"C13", "C10", "C11"})
    f = tgt("raw")
    p, rec, vw = dview(f)
    rw = V(u, "RET", f.j["ret_rec"])
    add(f, "raw", [OBJ(p, rec)] + vw.wf(), [("same-bytes", "%s == %s && %s == %s" % (rw.begin, vw.begin, rw.end, vw.end))], props={"C13", "C11"})

    # ---------- length-only mutators (no element movement)
    f = tgt("resize_di")
    p, rec, vw = dview(f)
    cnt = f.p[1]
    fits = FITS(cnt)
    add(f, "resize(n,default_init)", [OBJ(p, rec)] + vw.wf(), [("new-size-fits-or-reported", fits)] + lenbytes(vw, cnt), assigns=["%s: __CPROVER_object_upto(%s, %d)" % (fits, vw.begin, lw)], props={"C13", "C01", "C10"})
    add(f, "resize(n,default_init)", [OBJ(p, rec)] + vw.wf() + [ASSUME(fits)], lenbytes(vw, cnt), assigns=["__CPROVER_object_upto(%s, %d)" % (vw.begin, lw)], mode="N", props={"C10", "C13"})
    f = tgt("clear")
    p, rec, vw = dview(f)
    add(f, "clear", [OBJ(p, rec)] + vw.wf(), [("prefix-in-bounds-or-reported", "%d <= sbv_n" % lw)] + lenbytes(vw, "0"), assigns=["%d <= sbv_n: __CPROVER_object_upto(%s, %d)" % (lw, vw.begin, lw)], props={"C13", "C10"})
    f = tgt("pop_back")
    p, rec, vw = dview(f)
    add(f, "pop_back", [OBJ(p, rec)] + vw.wf() + [ASSUME("%d <= sbv_n" % lw)], [("non-empty-or-reported", "OLD((unsigned long)%s) != 0" % LEN(vw))] + lenbytes(vw, "OLD((unsigned long)%s) - 1" % LEN(vw)),
        assigns=["%d <= sbv_n: __CPROVER_object_upto(%s, %d)" % (lw, vw.begin, lw)], props={"C13", "C10"})
    f = tgt("push_back")
    p, rec, vw = dview(f)
    val = f.p[1]
    L0 = "OLD((unsigned long)%s)" % LEN(vw)
    pre = [OBJ(p, rec)] + vw.wf() + [ASSUME("%d <= sbv_n" % lw), ASSUME("(unsigned long)%s < %dUL" % (LEN(vw), MAXV))]
    add(f, "push_back", pre + [ASSUME("sbv_k < sbv_n && sbv_k + %d < sbv_n" % lw)], [("new-size-fits-or-reported", FITS("%s + 1" % L0))] + lenbytes(vw, "%s + 1" % L0) +
        [("appended-element", "(uint8_t)%s[%d + (unsigned long)%s] == (uint8_t)%s" % (vw.begin, lw, L0, val)),
         ("existing-elements-unchanged", "SPEC_IMPLIES(sbv_k < %s, (uint8_t)%s[%d + sbv_k] == OLD((uint8_t)%s[%d + sbv_k]))" % (L0, vw.begin, lw, vw.begin, lw))], ghosts=GH + [("unsigned long", "sbv_k")],
        assigns=["%s: __CPROVER_object_upto(%s, %d + (unsigned long)%s + 1)" % (FITS("(unsigned long)%s + 1" % LEN(vw)), vw.begin, lw, LEN(vw))], props={"C13", "C01", "C10"})

    # ---------- element-moving mutators: structure (unbounded, libc replaced) and content (bounded)
    GK = GH + [("unsigned long", "sbv_p"), ("unsigned long", "sbv_q"), ("unsigned long", "sbv_k"), ("unsigned long", "sbv_j")]
    libc = libc_contracts(u)

    def both(f, name, pre_extra, post_struct, post_content, frame_len, props=("C13", "C10"), iters=(), src=None):
        """iters: [(param name, ghost offset)] iterator parameters pointing into the payload"""
        p, rec, vw = dview(f)
        pre = [OBJ(p, rec)] + vw.wf()
        for prm, gh in iters:
            pre += [INRANGE(prm, "((%s *)(%s + %d))" % (ety, vw.begin, lw), "((%s *)(%s + sbv_n))" % (ety, vw.begin), gh), ASSUME("%d + %s <= sbv_n" % (lw, gh))]
        pre = pre[:3] + [ASSUME("%d <= sbv_n" % lw)] + pre[3:] + pre_extra
        frame = ["__CPROVER_object_upto(%s, sbv_n)" % vw.begin]
        add(f, name + " [structure]", pre, post_struct, assigns=frame, ghosts=GK, props=props, libc=("memmove", "memset"))
        add(f, name + " [content]", pre + [ASSUME("sbv_n <= %d" % CAPL), ASSUME("sbv_k < sbv_n && sbv_j < sbv_n && sbv_k + %d < sbv_n && sbv_j + %d < sbv_n" % (lw, lw))], post_content, assigns=frame, ghosts=GK, props=props, kind="bounded(buffer<=%d)" % CAPL, unwind=CAPL + 2,
            backends=["z3", "cvc5", "kissat", "minisat"])

    def el(vw, idx, old=False):
        e = "(uint8_t)%s[%d + %s]" % (vw.begin, lw, idx)
        return "OLD(%s)" % e if old else e

    # erase(pos)
    f = tgt("erase")
    p, rec, vw = dview(f)
    pos = f.p[1]
    L0 = "OLD((unsigned long)%s)" % LEN(vw)
    both(f, "erase(pos)", [], [("pos-inside-or-reported", "sbv_p < %s" % L0), ("payload-in-bounds-or-reported", FITS(L0))] + lenbytes(vw, "%s - 1" % L0) + [("returns-pos", "RET == OLD(%s)" % pos)],
         [("prefix-unchanged-before-pos", "SPEC_IMPLIES(sbv_k < sbv_p, %s == %s)" % (el(vw, "sbv_k"), el(vw, "sbv_k", True))),
          ("tail-shifted-left-by-one", "SPEC_IMPLIES(sbv_k >= sbv_p && sbv_k + 1 < %s && sbv_j == sbv_k + 1, %s == %s)" % (L0, el(vw, "sbv_k"), el(vw, "sbv_j", True)))],
         None, iters=[(pos, "sbv_p")])
    # erase(first,last)
    f = tgt("erase_range")
    p, rec, vw = dview(f)
    first, last = f.p[1], f.p[2]
    both(f, "erase(first,last)", [ASSUME("sbv_p <= sbv_q")],
         [("range-inside-or-reported", "sbv_q <= %s" % L0), ("payload-in-bounds-or-reported", FITS(L0))] + lenbytes(vw, "%s - (sbv_q - sbv_p)" % L0) + [("returns-first", "RET == OLD(%s)" % first)],
         [("prefix-unchanged-before-first", "SPEC_IMPLIES(sbv_k < sbv_p, %s == %s)" % (el(vw, "sbv_k"), el(vw, "sbv_k", True))),
          ("tail-shifted-left", "SPEC_IMPLIES(sbv_k >= sbv_p && sbv_k + (sbv_q - sbv_p) < %s && sbv_j == sbv_k + (sbv_q - sbv_p), %s == %s)" % (L0, el(vw, "sbv_k"), el(vw, "sbv_j", True)))],
         None, iters=[(first, "sbv_p"), (last, "sbv_q")])
    add(f, "erase(first,end()) is valid", [OBJ(p, rec)] + vw.wf() + [ASSUME("%d <= sbv_n" % lw), INRANGE(first, "((%s *)(%s + %d))" % (ety, vw.begin, lw), "((%s *)(%s + sbv_n))" % (ety, vw.begin), "sbv_p"),
                                                                     INRANGE(last, "((%s *)(%s + %d))" % (ety, vw.begin, lw), "((%s *)(%s + sbv_n))" % (ety, vw.begin), "sbv_q"),
                                                                     ASSUME("%s && sbv_p <= sbv_q && sbv_q == (unsigned long)%s && sbv_n <= %d" % (FITS(LEN(vw)), LEN(vw), lw + 4))],
        lenbytes(vw, "sbv_p"), assigns=["__CPROVER_object_upto(%s, sbv_n)" % vw.begin], mode="N", ghosts=GK, props={"C13", "C10"}, kind="bounded(buffer<=%d)" % (lw + 4), unwind=CAPL + 2, backends=["z3", "kissat", "cvc5", "minisat"])
    # insert(pos, value)
    f = tgt("insert")
    p, rec, vw = dview(f)
    pos, val = f.p[1], f.p[2]
    notfull = [ASSUME("(unsigned long)%s < %dUL" % (LEN(vw), MAXV))]
    both(f, "insert(pos,value)", notfull,
         [("pos-inside-or-reported", "sbv_p <= %s" % L0), ("new-size-fits-or-reported", FITS("%s + 1" % L0))] + lenbytes(vw, "%s + 1" % L0) + [("returns-pos", "RET == OLD(%s)" % pos)],
         [("prefix-unchanged-before-pos", "SPEC_IMPLIES(sbv_k < sbv_p, %s == %s)" % (el(vw, "sbv_k"), el(vw, "sbv_k", True))),
          ("inserted-element", "SPEC_IMPLIES(sbv_k == sbv_p, %s == (uint8_t)%s)" % (el(vw, "sbv_k"), val)),
          ("tail-shifted-right-by-one", "SPEC_IMPLIES(sbv_k > sbv_p && sbv_k <= %s && sbv_j + 1 == sbv_k, %s == %s)" % (L0, el(vw, "sbv_k"), el(vw, "sbv_j", True)))],
         None, iters=[(pos, "sbv_p")])
    # insert(pos, count, value)
    f = tgt("insert_n")
    p, rec, vw = dview(f)
    pos, cnt, val = f.p[1], f.p[2], f.p[3]
    room = [ASSUME("(unsigned long)%s <= %dUL && (unsigned long)%s <= %dUL - (unsigned long)%s" % (LEN(vw), MAXV, cnt, MAXV, LEN(vw)))]
    both(f, "insert(pos,count,value)", room,
         [("pos-inside-or-reported", "sbv_p <= %s" % L0), ("new-size-fits-or-reported", FITS("%s + (unsigned long)%s" % (L0, cnt)))] + lenbytes(vw, "%s + (unsigned long)%s" % (L0, cnt)) + [("returns-pos", "RET == OLD(%s)" % pos)],
         [("prefix-unchanged-before-pos", "SPEC_IMPLIES(sbv_k < sbv_p, %s == %s)" % (el(vw, "sbv_k"), el(vw, "sbv_k", True))),
          ("inserted-copies", "SPEC_IMPLIES(sbv_k >= sbv_p && sbv_k < sbv_p + (unsigned long)%s, %s == (uint8_t)%s)" % (cnt, el(vw, "sbv_k"), val)),
          ("tail-shifted-right-by-count", "SPEC_IMPLIES(sbv_k >= sbv_p + (unsigned long)%s && sbv_k < %s + (unsigned long)%s && sbv_j + (unsigned long)%s == sbv_k, %s == %s)" % (cnt, L0, cnt, cnt, el(vw, "sbv_k"), el(vw, "sbv_j", True)))],
         None, iters=[(pos, "sbv_p")])
    # insert(pos, first, last): forward iterators (one block move) and single-pass input iterators (element-wise loop)
    GM = GK + [("unsigned long", "sbv_m")]
    for nm, label in (("insert_range", "forward"), ("insert_input", "input")):
        if not THOROUGH[0] or ID != "l8c_le":
            break  # no back end decides these two content contracts within minutes (CBMC array_copy encoding); thorough tier, best effort (optional)

        f = tgt(nm)
        p, rec, vw = dview(f)
        pos, first, last = f.p[1], f.p[2], f.p[3]
        if nm == "insert_range":
            src = first
            srcpre = [BUF(first, "sbv_m", cast=ety + " *"), SET(last, "%s + sbv_m" % first)]
        else:
            irec = f.params[2]["rec"]
            fp = u.field(irec, 0)
            src = "%s.%s" % (first, fp)
            srcpre = [BUF(src, "sbv_m", cast=ety + " *"), SET("%s.%s" % (last, fp), "%s + sbv_m" % src)]
        pre = [OBJ(p, rec)] + vw.wf() + [ASSUME("%d <= sbv_n" % lw), INRANGE(pos, "((%s *)(%s + %d))" % (ety, vw.begin, lw), "((%s *)(%s + sbv_n))" % (ety, vw.begin), "sbv_p"), ASSUME("%d + sbv_p <= sbv_n" % lw)] + srcpre + \
              [ASSUME("sbv_m == 2 && (unsigned long)%s == 2 && sbv_p == 1" % LEN(vw)), ASSUME("sbv_n == %d" % (lw + 6)), ASSUME("sbv_k < sbv_n && sbv_j < sbv_n && sbv_k + %d < sbv_n && sbv_j + %d < sbv_n" % (lw, lw))]
        sidx = "((sbv_k >= sbv_p && sbv_k - sbv_p < sbv_m) ? sbv_k - sbv_p : 0)"
        post = [("pos-inside-or-reported", "sbv_p <= %s" % L0), ("new-size-fits-or-reported", FITS("%s + sbv_m" % L0))] + lenbytes(vw, "%s + sbv_m" % L0) + [("returns-pos", "RET == OLD(%s)" % pos),
                ("prefix-unchanged-before-pos", "SPEC_IMPLIES(sbv_k < sbv_p, %s == %s)" % (el(vw, "sbv_k"), el(vw, "sbv_k", True))),
                ("inserted-range-in-order", "SPEC_IMPLIES(sbv_k >= sbv_p && sbv_k < sbv_p + sbv_m, %s == (uint8_t)%s[%s])" % (el(vw, "sbv_k"), src, sidx)),
                ("tail-shifted-right-by-range-length", "SPEC_IMPLIES(sbv_k >= sbv_p + sbv_m && sbv_k < %s + sbv_m && sbv_j + sbv_m == sbv_k, %s == %s)" % (L0, el(vw, "sbv_k"), el(vw, "sbv_j", True)))]
        add(f, "insert(pos,first,last) %s iterators [content]" % label, pre, post, assigns=["__CPROVER_object_upto(%s, sbv_n)" % vw.begin], ghosts=GM, props={"C13", "C10"}, kind="bounded(buffer==%d,size==2,range==2,pos==1; contents symbolic)" % (lw + 6), unwind=3, timeout=300, optional=True,
            backends=["z3", "cvc5", "kissat", "minisat"])
    # assign(first,last): copies first, then sets the length (documented precondition: the range fits the buffer)
    f = tgt("assign_range_it")
    p, rec, vw = dview(f)
    first, last = f.p[1], f.p[2]
    pre = [OBJ(p, rec)] + vw.wf() + [BUF(first, "sbv_m", cast=ety + " *"), SET(last, "%s + sbv_m" % first), ASSUME("sbv_m >= 1 && %d + sbv_m <= sbv_n && sbv_m <= %dUL" % (lw, MAXV)), ASSUME("sbv_n <= %d" % CAPL), ASSUME("sbv_k < sbv_m")]
    add(f, "assign(first,last) [content]", pre, lenbytes(vw, "sbv_m") + [("elements-are-the-range", "%s == (uint8_t)%s[sbv_k]" % (el(vw, "sbv_k"), first))], assigns=["__CPROVER_object_upto(%s, sbv_n)" % vw.begin], mode="N", ghosts=GM,
        props={"C13", "C10"}, kind="bounded(buffer<=%d)" % CAPL, unwind=CAPL + 2, backends=["z3", "cvc5", "kissat", "minisat"])
    # assign_string(const char*)
    f = tgt("assign_string")
    p, rec, vw = dview(f)
    sp = f.p[1]
    strl = "(" + " ".join("(%d < sbv_m && %s[%d] == 0) ? %dUL :" % (i, sp, i, i) for i in range(5)) + " 5UL)"
    pre = [OBJ(p, rec)] + vw.wf() + [BUF(sp, "sbv_m"), ASSUME("sbv_m >= 1 && sbv_m <= 5"), ASSUME("%s[sbv_m - 1] == 0" % sp), ASSUME("%d <= sbv_n && sbv_n <= %d" % (lw, CAPL)), ASSUME("sbv_k < 4")]
    add(f, "assign_string [content]", pre, [("new-size-fits-or-reported", FITS(strl))] + lenbytes(vw, strl) + [("elements-are-the-string", "SPEC_IMPLIES(sbv_k < %s, %s == (uint8_t)%s[sbv_k < sbv_m ? sbv_k : 0])" % (strl, el(vw, "sbv_k"), sp))],
        assigns=["__CPROVER_object_upto(%s, sbv_n)" % vw.begin], ghosts=GM, props={"C13", "C10"}, kind="bounded(buffer<=%d,string<=4)" % CAPL, unwind=CAPL + 2, backends=["z3", "cvc5", "kissat", "minisat"])
    # the same operation without the "new length is representable" assumption: capacity overflow must be reported, not truncated
    if True:
        f = tgt("insert_n")
        p, rec, vw = dview(f)
        pos, cnt, val = f.p[1], f.p[2], f.p[3]
        pre = [OBJ(p, rec)] + vw.wf() + [ASSUME("%d <= sbv_n" % lw), INRANGE(pos, "((%s *)(%s + %d))" % (ety, vw.begin, lw), "((%s *)(%s + sbv_n))" % (ety, vw.begin), "sbv_p"), ASSUME("%d + sbv_p <= sbv_n" % lw)]
        add(f, "insert(pos,count,value) [structure, any count]", pre,
            [("pos-inside-or-reported", "sbv_p <= %s" % L0), ("new-size-representable-and-fits-or-reported", "%s <= %dUL && (unsigned long)%s <= %dUL - %s && %s" % (L0, MAXV, cnt, MAXV, L0, FITS("%s + (unsigned long)%s" % (L0, cnt))))],
            assigns=["__CPROVER_object_upto(%s, sbv_n)" % vw.begin], ghosts=GK, props={"C13", "C10"}, libc=("memmove", "memset"))
    # assign(count, value)
    f = tgt("assign_n")
    p, rec, vw = dview(f)
    cnt, val = f.p[1], f.p[2]
    both(f, "assign(count,value)", [],
         [("new-size-fits-or-reported", FITS(cnt))] + lenbytes(vw, cnt),
         [("all-elements-are-value", "SPEC_IMPLIES(sbv_k < (unsigned long)%s, %s == (uint8_t)%s)" % (cnt, el(vw, "sbv_k"), val))], None)
    # resize(count) / resize(count, value): loops written in sbepp itself
    for nm, hasv in (("resize", False), ("resize_v", True)):
        f = tgt(nm)
        p, rec, vw = dview(f)
        cnt = f.p[1]
        val = f.p[2] if hasv else "0"
        pre = [OBJ(p, rec)] + vw.wf() + [ASSUME("%d <= sbv_n" % lw), ASSUME("sbv_n <= %d" % CAPL), ASSUME("sbv_k < sbv_n && sbv_k + %d < sbv_n" % lw)]
        add(f, "resize(count%s) [content]" % (",value" if hasv else ""), pre,
            [("new-size-fits-or-reported", FITS(cnt))] + lenbytes(vw, cnt) +
            [("kept-elements-unchanged", "SPEC_IMPLIES(sbv_k < %s && sbv_k < (unsigned long)%s, %s == %s)" % (L0, cnt, el(vw, "sbv_k"), el(vw, "sbv_k", True))),
             ("new-elements-initialised", "SPEC_IMPLIES(sbv_k >= %s && sbv_k < (unsigned long)%s, %s == (uint8_t)%s)" % (L0, cnt, el(vw, "sbv_k"), val))],
            assigns=["__CPROVER_object_upto(%s, sbv_n)" % vw.begin], ghosts=GK, props={"C13", "C10"}, kind="bounded(buffer<=%d)" % CAPL, unwind=CAPL + 2, backends=["kissat", "minisat", "z3", "cvc5"])
    return out


def libc_contracts(u):
    """frame-only contracts for the C library calls the lowered algorithms end in (assumed dependency contracts)"""
    return []


def static_contracts(u, N):
    out = []
    T = "<N=%d>" % N

    def tgt(name):
        return u.target("r_a_%s_%d" % (name, N))

    def add(f, name, pre, post, assigns=(), mode="S", props=("C14",), ghosts=GH, **kw):
        out.append(Contract(f, "static_array_ref::" + name + T, props=set(props), ghosts=list(ghosts), mode=mode, pre=pre, post=post, assigns=list(assigns), unwind=N + 3, kind="exact-by-width(N=%d)" % N, **kw))

    def av(f, i=0):
        p = f.p[i]
        rec = f.params[i]["rec"]
        return p, rec, V(u, "(*%s)" % p, rec)

    fits = "%d <= sbv_n" % N
    # strlen: index of first NUL or N
    f = tgt("strlen")
    p, rec, vw = av(f)
    base = [OBJ(p, rec)] + vw.wf()
    first_nul = " && ".join(["1"] + ["%s[%d] != 0" % (vw.begin, i) for i in range(N)])
    post = [("array-in-bounds-or-reported", fits), ("result-at-most-N", "RET <= %d" % N),
            ("all-before-result-are-non-NUL", " && ".join("(RET <= %d || %s[%d] != 0)" % (i, vw.begin, i) for i in range(N))),
            ("result-is-NUL-or-N", "RET == %d || %s" % (N, " || ".join("(RET == %d && %s[%d] == 0)" % (i, vw.begin, i) for i in range(N))))]
    add(f, "strlen", base, post, props={"C14", "C10", "C11"})
    f = tgt("strlen_r")
    p, rec, vw = av(f)
    post = [("array-in-bounds-or-reported", fits), ("result-at-most-N", "RET <= %d" % N),
            ("all-from-result-are-NUL", " && ".join("(RET > %d || %s[%d] == 0)" % (i, vw.begin, i) for i in range(N))),
            ("result-is-0-or-after-non-NUL", "RET == 0 || %s" % " || ".join("(RET == %d && %s[%d] != 0)" % (i + 1, vw.begin, i) for i in range(N)))]
    add(f, "strlen_r", [OBJ(p, rec)] + vw.wf(), post, props={"C14", "C10", "C11"})
    # assign_string(const char*, eos)
    f = tgt("assign_string")
    p, rec, vw = av(f)
    s, mode = f.p[1], f.p[2]
    GS = GH + [("unsigned long", "sbv_m")]
    # str: fresh C string buffer of sbv_m bytes whose last byte is NUL and which has length L = first NUL
    pre = [OBJ(p, rec)] + vw.wf() + [BUF(s, "sbv_m"), ASSUME("sbv_m >= 1 && sbv_m <= %d" % (N + 2)), ASSUME("%s[sbv_m - 1] == 0" % s), ASSUME("%s >= 0 && %s <= 2" % (mode, mode))]
    Lexpr = "(" + " ".join("%s[%d] == 0 ? %dUL :" % (s, i, i) for i in range(N + 1)) + " %dUL)" % (N + 1)
    # the C string length is computed without reading past the NUL
    strl = "(" + " ".join("(%d < sbv_m && %s[%d] == 0) ? %dUL :" % (i, s, i, i) for i in range(N + 2)) + " %dUL)" % (N + 2)
    post = [("array-in-bounds-or-reported", fits), ("string-fits-or-reported", "%s <= %d" % (strl, N)), ("returns-iterator-past-content", "RET == %s + %s" % (vw.begin, strl))]
    for i in range(N):
        post.append(("byte-%d" % i, "(%s > %d ? %s[%d] == %s[%d < sbv_m ? %d : 0] : ((%s == 2 || (%s == 1 && %s == %d)) ? %s[%d] == 0 : %s[%d] == OLD(%s[%d])))" % (
            strl, i, vw.begin, i, s, i, i, mode, mode, strl, i, vw.begin, i, vw.begin, i, vw.begin, i)))
    add(f, "assign_string(const char*,eos)", pre, post[:3], assigns=["%s: __CPROVER_object_upto(%s, %d)" % (fits, vw.begin, N)], ghosts=GS, props={"C14", "C10"})
    add(f, "assign_string(const char*,eos)", pre + [ASSUME(fits), ASSUME("%s <= %d" % (strl, N))], post[2:], assigns=["__CPROVER_object_upto(%s, %d)" % (vw.begin, N)], mode="N", ghosts=GS, props={"C14", "C10", "C01"})
    # fill / assign(count,value)
    f = tgt("fill")
    p, rec, vw = av(f)
    add(f, "fill", [OBJ(p, rec)] + vw.wf(), [("array-in-bounds-or-reported", fits)] + [("byte-%d" % i, "%s[%d] == %s" % (vw.begin, i, f.p[1])) for i in range(N)],
        assigns=["%s: __CPROVER_object_upto(%s, %d)" % (fits, vw.begin, N)], props={"C14", "C10"})
    f = tgt("assign_n")
    p, rec, vw = av(f)
    cnt, val = f.p[1], f.p[2]
    add(f, "assign(count,value)", [OBJ(p, rec)] + vw.wf(), [("array-in-bounds-or-reported", fits), ("count-fits-or-reported", "%s <= %d" % (cnt, N)), ("returns-iterator-past-written", "RET == %s + %s" % (vw.begin, cnt))],
        assigns=["%s: __CPROVER_object_upto(%s, %d)" % (fits, vw.begin, N)], props={"C14", "C10"})
    add(f, "assign(count,value)", [OBJ(p, rec)] + vw.wf() + [ASSUME(fits), ASSUME("%s <= %d" % (cnt, N))], [("returns-iterator-past-written", "RET == %s + %s" % (vw.begin, cnt))] +
        [("byte-%d" % i, "%s[%d] == (%d < %s ? %s : OLD(%s[%d]))" % (vw.begin, i, i, cnt, val, vw.begin, i)) for i in range(N)],
        assigns=["__CPROVER_object_upto(%s, %d)" % (vw.begin, N)], mode="N", props={"C14", "C10"})
    # assign(first,last) with the source inside the documented precondition
    f = tgt("assign_it")
    p, rec, vw = av(f)
    first, last = f.p[1], f.p[2]
    GS2 = GH + [("unsigned long", "sbv_m")]
    pre = [OBJ(p, rec)] + vw.wf() + [ASSUME(fits), BUF(first, "sbv_m"), ASSUME("sbv_m <= %d" % N), SET(last, "%s + sbv_m" % first)]
    add(f, "assign(first,last)", pre, [("returns-iterator-past-written", "RET == %s + sbv_m" % vw.begin)] + [("byte-%d" % i, "%s[%d] == (%d < sbv_m ? %s[%d < sbv_m ? %d : 0] : OLD(%s[%d]))" % (vw.begin, i, i, first, i, i, vw.begin, i)) for i in range(N)],
        assigns=["__CPROVER_object_upto(%s, %d)" % (vw.begin, N)], mode="N", ghosts=GS2, props={"C14", "C10"})
    # element access, iterators, sizes
    f = tgt("at")
    p, rec, vw = av(f)
    add(f, "operator[]", [OBJ(p, rec)] + vw.wf(), [("pos-below-N-or-reported", "%s < %d" % (f.p[1], N)), ("array-in-bounds-or-reported", fits), ("element-reference", "RET == %s + %s" % (vw.begin, f.p[1]))], props={"C14", "C10", "C11"})
    for nm, off in (("data", 0), ("begin", 0), ("end", N)):
        f = tgt(nm)
        p, rec, vw = av(f)
        add(f, nm, [OBJ(p, rec)] + vw.wf(), [("array-in-bounds-or-reported", fits), ("pointer", "RET == %s + %d" % (vw.begin, off))], props={"C14", "C10", "C11"})
    f = tgt("raw")
    p, rec, vw = av(f)
    rw = V(u, "RET", f.j["ret_rec"])
    add(f, "raw", [OBJ(p, rec)] + vw.wf(), [("same-bytes-and-same-bound", "%s == %s && %s == %s" % (rw.begin, vw.begin, rw.end, vw.end))], props={"C14", "C10", "C11"})
    f = tgt("size")
    add(f, "size", [], [("N", "RET == %d" % N)], props={"C14", "C05"})
    f = tgt("size_bytes")
    p, rec, vw = av(f)
    add(f, "size_bytes", [OBJ(p, rec)] + vw.wf(), [("N", "RET == %d" % N)], props={"C14", "C05", "C11"})
    return out
