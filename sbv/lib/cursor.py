"""sbepp::cursor and the init / init_dont_move / dont_move / skip wrappers: agree with random access, documented end position,
wrong position reported (C04); geometry of 'last' methods taken from the view's wire block length (C03); bounds (C10); frames (C11)."""
from ..build import Unit, ToolError
from ..engine import Contract, BUF, OBJ, SET, ASSUME, INRANGE
from ..sbe import PRIMS, bits
from ..views import V, OFFMAX

SERVES = {"C01", "C02", "C03", "C04", "C10", "C11"}
GH = [("unsigned long", "sbv_n"), ("unsigned long", "sbv_c")]
KINDS = ["plain", "init", "idm", "dm", "skip"]
KNAME = {"plain": "cursor", "init": "init_cursor_wrapper", "idm": "init_dont_move_cursor_wrapper", "dm": "dont_move_cursor_wrapper", "skip": "skip_cursor_wrapper"}
TYPES = [("uint8", "le"), ("uint16", "le"), ("uint32", "be"), ("uint64", "le"), ("double", "be")]


def find_prim(u, which, N, EN):
    P = PRIMS[N]
    e = "sbepp::endian::big" if EN == "be" else "sbepp::endian::little"
    for f in u.find(qual="sbepp::detail::%s_primitive" % which):
        ta = f.targs
        if which == "get" and ta[0] == ctype_name(N) and ta[1] == e:
            return f
        if which == "set" and ta[0] == e and ta[1] == ctype_name(N):
            return f
    raise ToolError("%s_primitive<%s,%s> not lowered in %s" % (which, N, EN, u.name))


def ctype_name(N):
    return {"char": "char", "int8": "signed char", "uint8": "unsigned char", "int16": "short", "uint16": "unsigned short", "int32": "int", "uint32": "unsigned int",
            "int64": "long", "uint64": "unsigned long", "float": "float", "double": "double"}[N]


def prim_get_contract(u, N, EN):
    f = find_prim(u, "get", N, EN)
    w = PRIMS[N]["size"]
    return Contract(f, "get_primitive<%s,%s>" % (N, EN), pre=[BUF(f.p[0], str(w))],
                    post=[("decodes-byte-image", "%s == SPEC_LOAD(%s, %d, %d)" % (bits(N, "RET"), f.p[0], w, 1 if EN == "be" else 0))], assigns=[])


def prim_set_contract(u, N, EN):
    f = find_prim(u, "set", N, EN)
    w = PRIMS[N]["size"]
    be = 1 if EN == "be" else 0
    return Contract(f, "set_primitive<%s,%s>" % (N, EN), pre=[BUF(f.p[0], str(w))],
                    post=[("byte-%d" % i, "(uint8_t)%s[%d] == SPEC_BYTE(%s, %d, %d, %d)" % (f.p[0], i, bits(N, f.p[1]), w, be, i)) for i in range(w)],
                    assigns=["__CPROVER_object_upto(%s, %d)" % (f.p[0], w)])


def retval(u, f):
    rr = f.j["ret_rec"]
    return "RET" + u.path_to(rr, "sbepp::detail::required_base") + "." + u.field(u.rec(rr)["bases"][0]["cname"], 0)


def cursor_state(u, f, kind, vw, positioned):
    """pre items establishing self (and the wrapped cursor); returns (items, ptr lvalue)"""
    rec = f.params[0]["rec"]
    items = [OBJ("self", rec)]
    if kind == "plain":
        cur = "self"
        crec = rec
    else:
        wf = u.field(rec, 0)
        cur = "self->" + wf
        crec = None
        for r in u.recs.values():
            if r["qual"] == "sbepp::cursor" and r["targs"] == ["char"]:
                crec = r["cname"]
        items.append(OBJ(cur, crec))
    ptr = cur + "->" + u.field(crec, 0)
    if positioned:
        items += [INRANGE(ptr, vw.begin, vw.begin + " + sbv_n", "sbv_c"), ASSUME("sbv_c <= sbv_n")]
    return items, ptr


def contracts(tier):
    u = Unit("cursor", "cursor.cpp").build()
    out = []
    types = TYPES if tier == "thorough" else TYPES
    for kind in KINDS:
        K = KNAME[kind]
        uses_pos = kind in ("plain", "dm", "skip")   # methods that rely on the current cursor position
        for N, EN in types:
            w = PRIMS[N]["size"]
            be = 1 if EN == "be" else 0
            cg = prim_get_contract(u, N, EN)
            for last in (False, True):
                mname = "get_last_value" if last else "get_value"
                f = u.target("r_%s_%s_%s_%s" % (kind, "getlast" if last else "get", N, EN))
                view, off, ab = f.p[1], f.p[2], f.p[3]
                vw = V(u, view, f.params[1]["rec"])
                st, ptr = cursor_state(u, f, kind, vw, uses_pos)
                wbl = vw.field(0)
                post_val = [] if kind == "skip" else [("agrees-with-random-access", "%s == SPEC_LOAD(%s + %s, %d, %d)" % (bits(N, retval(u, f)), vw.begin, ab, w, be))]
                if kind in ("plain", "skip"):
                    pos = ("%s + %s" % (vw.begin, wbl)) if last else ("%s + %s + %d" % (vw.begin, ab, w))
                elif kind == "init":
                    pos = ("%s + %s" % (vw.begin, wbl)) if last else ("%s + %s + %d" % (vw.begin, ab, w))
                elif kind == "idm":
                    pos = "%s + %s - %s" % (vw.begin, ab, off)
                else:
                    pos = "OLD(%s)" % ptr
                post_pos = [("documented-end-position", "%s == %s" % (ptr, pos))]
                report = [("wrong-position-is-reported", "%s == sbv_c + %s" % (ab, off))] if uses_pos else []
                bounds = [("in-bounds-or-reported", "%s + %d <= sbv_n" % (ab, w))]
                base = vw.wf() + st + [ASSUME("%s <= %s && %s <= %s" % (off, OFFMAX, ab, OFFMAX))]
                frame = [] if kind == "dm" else [ptr]
                nm = "%s::%s<%s,%s>" % (K, mname, N, EN)
                out.append(Contract(f, nm, props={"C04", "C10", "C02", "C11"} | ({"C03"} if last else set()), ghosts=GH, mode="S", pre=base,
                                    post=report + bounds + post_val + post_pos, assigns=frame, replaces=[cg]))
                legal = "%s + %d <= sbv_n" % (ab, w) + (" && %s == sbv_c + %s" % (ab, off) if uses_pos else "")
                out.append(Contract(f, nm, props={"C04", "C10"}, ghosts=GH, mode="N", pre=base + [ASSUME(legal)],
                                    post=post_val + post_pos, assigns=frame, replaces=[cg]))
            if kind == "skip":
                continue
            cs = prim_set_contract(u, N, EN)
            for last in (False, True):
                mname = "set_last_value" if last else "set_value"
                f = u.target("r_%s_%s_%s_%s" % (kind, "setlast" if last else "set", N, EN))
                view, off, ab, val = f.p[1], f.p[2], f.p[3], f.p[4]
                vw = V(u, view, f.params[1]["rec"])
                st, ptr = cursor_state(u, f, kind, vw, uses_pos)
                wbl = vw.field(0)
                wr = [("byte-%d" % i, "(uint8_t)%s[%s + %d] == SPEC_BYTE(%s, %d, %d, %d)" % (vw.begin, ab, i, bits(N, val), w, be, i)) for i in range(w)]
                if kind in ("plain", "init"):
                    pos = ("%s + %s" % (vw.begin, wbl)) if last else ("%s + %s + %d" % (vw.begin, ab, w))
                elif kind == "idm":
                    pos = "%s + %s - %s" % (vw.begin, ab, off)
                else:
                    pos = "OLD(%s)" % ptr
                post_pos = [("documented-end-position", "%s == %s" % (ptr, pos))]
                report = [("wrong-position-is-reported", "%s == sbv_c + %s" % (ab, off))] if uses_pos else []
                bounds = [("in-bounds-or-reported", "%s + %d <= sbv_n" % (ab, w))]
                base = vw.wf() + st + [ASSUME("%s <= %s && %s <= %s" % (off, OFFMAX, ab, OFFMAX))]
                tgt = "__CPROVER_object_upto(%s + %s, %d)" % (vw.begin, ab, w)
                legal = "%s + %d <= sbv_n" % (ab, w) + (" && %s == sbv_c + %s" % (ab, off) if uses_pos else "")
                frame_s = ["%s: %s" % (legal, tgt)] + ([] if kind == "dm" else [ptr])
                frame_n = [tgt] + ([] if kind == "dm" else [ptr])
                nm = "%s::%s<%s,%s>" % (K, mname, N, EN)
                out.append(Contract(f, nm, props={"C04", "C10", "C01"} | ({"C03"} if last else set()), ghosts=GH, mode="S", pre=base,
                                    post=report + bounds + wr + post_pos, assigns=frame_s, replaces=[cs]))
                out.append(Contract(f, nm, props={"C04", "C10"}, ghosts=GH, mode="N", pre=base + [ASSUME(legal)], post=wr + post_pos, assigns=frame_n, replaces=[cs]))
        # ---- static field views (fixed arrays / composites): Res = static_array_ref<char,char,6>
        for last in (False, True):
            mname = "get_last_static_field_view" if last else "get_static_field_view"
            f = u.target("r_%s_%s" % (kind, "laststatic" if last else "static"))
            view, off, ab = f.p[1], f.p[2], f.p[3]
            vw = V(u, view, f.params[1]["rec"])
            st, ptr = cursor_state(u, f, kind, vw, uses_pos)
            wbl = vw.field(0)
            post_val = []
            if kind != "skip":
                rw = V(u, "RET", f.j["ret_rec"])
                post_val = [("same-bytes-as-random-access", "%s == %s + %s && %s == %s" % (rw.begin, vw.begin, ab, rw.end, vw.end))]
            if kind in ("plain", "skip", "init"):
                pos = ("%s + %s" % (vw.begin, wbl)) if last else ("%s + %s + 6" % (vw.begin, ab))
            elif kind == "idm":
                pos = "%s + %s - %s" % (vw.begin, ab, off)
            else:
                pos = "OLD(%s)" % ptr
            post_pos = [("documented-end-position", "%s == %s" % (ptr, pos))]
            report = [("wrong-position-is-reported", "%s == sbv_c + %s" % (ab, off))] if uses_pos else []
            bounds = [("start-in-bounds-or-reported", "%s <= sbv_n" % ab)]
            base = vw.wf() + st + [ASSUME("%s <= %s && %s <= %s" % (off, OFFMAX, ab, OFFMAX))]
            frame = [] if kind == "dm" else [ptr]
            nm = "%s::%s" % (K, mname)
            out.append(Contract(f, nm, props={"C04", "C10", "C02", "C11"} | ({"C03"} if last else set()), ghosts=GH, mode="S", pre=base, post=report + bounds + post_val + post_pos, assigns=frame))
            legal = "%s <= sbv_n" % ab + (" && %s == sbv_c + %s" % (ab, off) if uses_pos else "")
            out.append(Contract(f, nm, props={"C04", "C10"}, ghosts=GH, mode="N", pre=base + [ASSUME(legal)], post=post_val + post_pos, assigns=frame))
        # ---- first data member of a level: position comes from level + wire block length
        f = u.target("r_%s_firstdata" % kind)
        view = f.p[1]
        vw = V(u, view, f.params[1]["rec"])
        st, ptr = cursor_state(u, f, kind, vw, False)
        wbl = vw.field(0)
        first = "%s + %s" % (vw.begin, wbl)
        post_val = []
        if kind != "skip":
            rw = V(u, "RET", f.j["ret_rec"])
            post_val = [("first-member-starts-after-wire-block", "%s == %s && %s == %s" % (rw.begin, first, rw.end, vw.end))]
        moves = kind in ("plain", "init", "skip")
        if moves:
            post_pos = [("prefix-in-bounds-or-reported", "(unsigned long)%s + 4 <= sbv_n" % wbl),
                        ("documented-end-position", "%s == %s + 4 + SPEC_LOAD(%s, 4, 0)" % (ptr, first, first))]
        else:
            post_pos = [("documented-end-position", "%s == %s" % (ptr, first))]
        nm = "%s::get_first_data_view" % K
        out.append(Contract(f, nm, props={"C04", "C03", "C10", "C11"}, ghosts=GH, mode="S", pre=vw.wf() + st, post=post_val + post_pos, assigns=[ptr]))
        legal = ("(unsigned long)%s + 4 <= sbv_n" % wbl) if moves else ("(unsigned long)%s <= sbv_n" % wbl)
        out.append(Contract(f, nm, props={"C04", "C10"}, ghosts=GH, mode="N", pre=vw.wf() + st + [ASSUME(legal)], post=post_val + post_pos, assigns=[ptr]))
        # ---- non-first data member: the getter gives the random-access view; plain/dont_move/skip must be AT it
        f = u.target("r_%s_data" % kind)
        view, getter = f.p[1], f.p[2]
        vw = V(u, view, f.params[1]["rec"])
        grec = f.params[2]["rec"]
        gw = V(u, "%s->%s" % (getter, u.field(grec, 0)), u.rec(grec)["fields"][0]["ctype"].strip())
        st, ptr = cursor_state(u, f, kind, vw, uses_pos)
        gpre = [OBJ(getter, grec), INRANGE(gw.begin, vw.begin, vw.begin + " + sbv_n", "sbv_g"), SET(gw.end, vw.end), ASSUME("sbv_g <= sbv_n")]
        gh = GH + [("unsigned long", "sbv_g")]
        post_val = []
        if kind != "skip":
            rw = V(u, "RET", f.j["ret_rec"])
            post_val = [("same-bytes-as-random-access", "%s == %s && %s == %s" % (rw.begin, gw.begin, rw.end, vw.end))]
        report = [("wrong-position-is-reported", "sbv_g == sbv_c")] if uses_pos else []
        if kind in ("plain", "init", "skip"):
            post_pos = [("prefix-in-bounds-or-reported", "sbv_g + 4 <= sbv_n"), ("documented-end-position", "%s == %s + 4 + SPEC_LOAD(%s, 4, 0)" % (ptr, gw.begin, gw.begin))]
            legal = "sbv_g + 4 <= sbv_n"
        elif kind == "idm":
            post_pos = [("documented-end-position", "%s == %s" % (ptr, gw.begin))]
            legal = "1"
        else:
            post_pos = [("documented-end-position", "%s == OLD(%s)" % (ptr, ptr))]
            legal = "1"
        frame = [] if kind == "dm" else [ptr]
        nm = "%s::get_data_view" % K
        out.append(Contract(f, nm, props={"C04", "C10", "C11"}, ghosts=gh, mode="S", pre=vw.wf() + st + gpre, post=report + post_val + post_pos, assigns=frame))
        out.append(Contract(f, nm, props={"C04", "C10"}, ghosts=gh, mode="N", pre=vw.wf() + st + gpre + [ASSUME(legal + (" && sbv_g == sbv_c" if uses_pos else ""))],
                            post=post_val + post_pos, assigns=frame))
    # ---- wrapper factories, pointer access, conversion towards const, entry-from-cursor
    crec = None
    for r in u.recs.values():
        if r["qual"] == "sbepp::cursor" and r["targs"] == ["char"]:
            crec = r["cname"]
    for kind in ("init", "idm", "dm", "skip"):
        f = u.target("r_wrap_" + kind)
        rr = f.j["ret_rec"]
        out.append(Contract(f, "cursor_ops::%s" % {"init": "init", "idm": "init_dont_move", "dm": "dont_move", "skip": "skip"}[kind], props={"C04"},
                            pre=[OBJ(f.p[0], crec)], post=[("wraps-that-cursor", "RET.%s == %s" % (u.field(rr, 0), f.p[0]))], assigns=[]))
    f = u.target("r_cursor_pointer")
    out.append(Contract(f, "cursor::pointer()", props={"C04"}, pre=[OBJ("self", crec)], post=[("reference-to-position", "RET == &self->%s" % u.field(crec, 0))], assigns=[]))
    f = u.target("r_cursor_pointer_c")
    out.append(Contract(f, "cursor::pointer() const", props={"C04", "C11"}, pre=[OBJ("self", crec)], post=[("position", "RET == self->%s" % u.field(crec, 0))], assigns=[]))
    f = u.root("r_cursor_to_const")
    out.append(Contract(f, "cursor<const char>(cursor<char>)", props={"C11"}, pre=[], post=[("same-position", "RET.%s == %s.%s" % (u.field(f.j["ret_rec"], 0), f.p[0], u.field(crec, 0)))], assigns=[]))
    f = u.root("r_entry_from_cursor")
    rw = V(u, "RET", f.j["ret_rec"])
    out.append(Contract(f, "entry_base(cursor&,end,block_length)", props={"C04", "C03"}, pre=[OBJ(f.p[0], crec)],
                        post=[("entry-at-cursor-with-wire-block-length", "%s == %s->%s && %s == %s && %s == %s" % (rw.begin, f.p[0], u.field(crec, 0), rw.end, f.p[1], rw.field(0), f.p[2]))], assigns=[]))
    return out
