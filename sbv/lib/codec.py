"""Byte codec and offset-based accessors: get/set_primitive, byteswap, get/set_value, static/dynamic field views."""
from ..build import Unit
from ..engine import Contract, BUF, OBJ, SET, ASSUME
from ..sbe import PRIMS, ORDER, bits
from ..views import V, OFFMAX

SERVES = {"C01", "C02", "C03", "C10", "C11"}
GH_N = [("unsigned long", "sbv_n")]


def prim_contracts(u, N, EN, tag=""):
    """contracts of get_primitive / set_primitive for primitive N and byte order EN in unit u (used for enforcement and for replacement in callers)"""
    P = PRIMS[N]
    w = P["size"]
    be = 1 if EN == "be" else 0
    g = u.target("r_getp_%s_%s" % (N, EN))
    ptr = g.p[0]
    cg = Contract(g, "get_primitive<%s,%s>%s" % (N, EN, tag), props={"C02", "C11", "C10"},
                  pre=[BUF(ptr, str(w))],
                  post=[("decodes-byte-image", "%s == SPEC_LOAD(%s, %d, %d)" % (bits(N, "RET"), ptr, w, be))],
                  assigns=[])
    s = u.target("r_setp_%s_%s" % (N, EN))
    ptr, val = s.p[0], s.p[1]
    cs = Contract(s, "set_primitive<%s,%s>%s" % (N, EN, tag), props={"C01", "C10"},
                  pre=[BUF(ptr, str(w))],
                  post=[("byte-%d" % i, "(uint8_t)%s[%d] == SPEC_BYTE(%s, %d, %d, %d)" % (ptr, i, bits(N, val), w, be, i)) for i in range(w)],
                  assigns=["__CPROVER_object_upto(%s, %d)" % (ptr, w)])
    return cg, cs


def contracts(tier):
    """quick: C++17 everything + C++20 (bit_cast / std::copy / reverse_copy code path) for the byte codec itself;
    thorough: C++11, C++14, C++17, C++20 everything"""
    out = contracts_std(tier, "c++17")
    if tier == "thorough":
        for std in ("c++11", "c++14", "c++20"):
            out += contracts_std(tier, std)
    else:
        out += [c for c in contracts_std(tier, "c++20") if "_primitive<" in c.name]
    return out


def contracts_std(tier, std="c++17"):
    out = []
    tag = "" if std == "c++17" else "[" + std + "]"
    for asserts in ("checked", "unchecked"):
        u = Unit("codec-%s-%s" % (std, asserts), "codec.cpp", std=std, asserts=asserts).build()
        at = tag + ("" if asserts == "checked" else "[unchecked]")
        for N in ORDER:
            P = PRIMS[N]
            w = P["size"]
            for EN in ("le", "be"):
                be = 1 if EN == "be" else 0
                cg, cs = prim_contracts(u, N, EN, at)
                out += [cg, cs]
                # ---- get_value
                for rn, cn in (("r_getv", ""), ("r_cgetv", "<const>")):
                    f = u.target("%s_%s_%s" % (rn, N, EN))
                    view, off = f.p[0], f.p[1]
                    vw = V(u, view, f.params[0]["rec"])
                    rr = f.j["ret_rec"]
                    rv = "RET" + u.path_to(rr, "sbepp::detail::required_base") + "." + u.field(u.rec(rr)["bases"][0]["cname"], 0)
                    value = ("decodes-field-at-offset", "%s == SPEC_LOAD(%s + %s, %d, %d)" % (bits(N, rv), vw.begin, off, w, be))
                    if asserts == "checked":
                        out.append(Contract(f, "get_value%s<%s,%s>%s" % (cn, N, EN, at), props={"C02", "C10", "C11"}, ghosts=GH_N, mode="S",
                                            pre=vw.wf() + [ASSUME("%s <= %s" % (off, OFFMAX))],
                                            post=[("in-bounds-or-reported", "%s + %d <= sbv_n" % (off, w)), value], assigns=[], replaces=[cg]))
                        out.append(Contract(f, "get_value%s<%s,%s>%s" % (cn, N, EN, at), props={"C10"}, ghosts=GH_N, mode="N",
                                            pre=vw.wf() + [ASSUME("%s <= %s && %s + %d <= sbv_n" % (off, OFFMAX, off, w))],
                                            post=[value], assigns=[], replaces=[cg]))
                        if cn == "" and EN == "le":
                            out.append(Contract(f, "get_value<%s,%s>%s null view" % (N, EN, at), props={"C10"}, mode="R",
                                                pre=[SET(vw.begin, "(char *)0")], post=[], assigns=[], replaces=[cg]))
                    else:
                        out.append(Contract(f, "get_value%s<%s,%s>%s" % (cn, N, EN, at), props={"C02", "C11"}, ghosts=GH_N, mode="S",
                                            pre=vw.wf() + [ASSUME("%s <= %s && %s + %d <= sbv_n" % (off, OFFMAX, off, w))],
                                            post=[value], assigns=[], replaces=[cg]))
                # ---- set_value
                f = u.target("r_setv_%s_%s" % (N, EN))
                view, off, val = f.p[0], f.p[1], f.p[2]
                vw = V(u, view, f.params[0]["rec"])
                wr = [("byte-%d" % i, "(uint8_t)%s[%s + %d] == SPEC_BYTE(%s, %d, %d, %d)" % (vw.begin, off, i, bits(N, val), w, be, i)) for i in range(w)]
                frame = ["__CPROVER_object_upto(%s + %s, %d)" % (vw.begin, off, w)]
                if asserts == "checked":
                    cframe = ["%s + %d <= sbv_n: %s" % (off, w, frame[0])]
                    out.append(Contract(f, "set_value<%s,%s>%s" % (N, EN, at), props={"C01", "C10"}, ghosts=GH_N, mode="S",
                                        pre=vw.wf() + [ASSUME("%s <= %s" % (off, OFFMAX))],
                                        post=[("in-bounds-or-reported", "%s + %d <= sbv_n" % (off, w))] + wr, assigns=cframe, replaces=[cs]))
                    out.append(Contract(f, "set_value<%s,%s>%s" % (N, EN, at), props={"C10"}, ghosts=GH_N, mode="N",
                                        pre=vw.wf() + [ASSUME("%s <= %s && %s + %d <= sbv_n" % (off, OFFMAX, off, w))],
                                        post=wr, assigns=frame, replaces=[cs]))
                else:
                    out.append(Contract(f, "set_value<%s,%s>%s" % (N, EN, at), props={"C01"}, ghosts=GH_N, mode="S",
                                        pre=vw.wf() + [ASSUME("%s <= %s && %s + %d <= sbv_n" % (off, OFFMAX, off, w))],
                                        post=wr, assigns=frame, replaces=[cs]))
        # ---- byteswap
        for W in (16, 32, 64):
            f = u.target("r_bswap%d" % W)
            v = f.p[0]
            nb = W // 8
            e = " | ".join("(((uint64_t)%s >> %d) & 0xff) << %d" % (v, 8 * i, 8 * (nb - 1 - i)) for i in range(nb))
            out.append(Contract(f, "byteswap(uint%d)%s" % (W, at), props={"C01", "C02"}, pre=[], post=[("reverses-bytes", "(uint64_t)RET == (%s)" % e)], assigns=[]))
        if asserts != "checked":
            continue
        # ---- static field view
        f = u.target("r_static_view")
        view, off = f.p[0], f.p[1]
        vw = V(u, view, f.params[0]["rec"])
        rw = V(u, "RET", f.j["ret_rec"])
        same = [("begins-at-offset", "%s == %s + %s" % (rw.begin, vw.begin, off)), ("keeps-end", "%s == %s" % (rw.end, vw.end))]
        out.append(Contract(f, "get_static_field_view" + at, props={"C02", "C10", "C11"}, ghosts=GH_N, mode="S",
                            pre=vw.wf() + [ASSUME("%s <= %s" % (off, OFFMAX))], post=[("in-bounds-or-reported", "%s <= sbv_n" % off)] + same, assigns=[]))
        out.append(Contract(f, "get_static_field_view" + at, props={"C10"}, ghosts=GH_N, mode="N",
                            pre=vw.wf() + [ASSUME("%s <= sbv_n" % off)], post=same, assigns=[]))
        # ---- first / next dynamic member views take geometry from the view, not from constants (C03)
        f = u.target("r_first_dyn")
        vw = V(u, f.p[0], f.params[0]["rec"])
        rw = V(u, "RET", f.j["ret_rec"])
        bl = vw.field(0)
        out.append(Contract(f, "get_first_dynamic_field_view<entry>" + at, props={"C03", "C11"}, ghosts=GH_N, mode="S",
                            pre=vw.wf(), post=[("begins-after-wire-block", "%s == %s + %s" % (rw.begin, vw.begin, bl)), ("keeps-end", "%s == %s" % (rw.end, vw.end))], assigns=[]))
        f = u.target("r_next_dyn32")
        vw = V(u, f.p[0], f.params[0]["rec"])
        pv = V(u, f.p[1], f.params[1]["rec"])
        rw = V(u, "RET", f.j["ret_rec"])
        out.append(Contract(f, "get_dynamic_field_view<data32>" + at, props={"C03", "C10", "C11"}, ghosts=GH_N + [("unsigned long", "sbv_m")], mode="S",
                            pre=vw.wf("sbv_m") + pv.wf("sbv_n"),
                            post=[("prefix-inside-or-reported", "4 <= sbv_n"),
                                  ("begins-after-previous-member", "%s == %s + 4 + SPEC_LOAD(%s, 4, 0)" % (rw.begin, pv.begin, pv.begin)), ("keeps-end", "%s == %s" % (rw.end, vw.end))], assigns=[]))
        # ---- construction / conversion
        f = u.root("r_range_ptrs")
        rw = V(u, "RET", f.j["ret_rec"])
        out.append(Contract(f, "byte_range(begin,end)" + at, props={"C10", "C11"}, pre=[], post=[("holds-pointers", "%s == %s && %s == %s" % (rw.begin, f.p[0], rw.end, f.p[1]))], assigns=[]))
        f = u.root("r_range_size")
        out.append(Contract(f, "byte_range(ptr,size)" + at, props={"C10", "C11"}, ghosts=GH_N, pre=[BUF(f.p[0], "sbv_n"), ASSUME("%s <= sbv_n" % f.p[1])],
                            post=[("holds-range", "%s == %s && %s == %s + %s" % (rw.begin, f.p[0], rw.end, f.p[0], f.p[1]))], assigns=[]))
        f = u.root("r_range_to_const")
        ow = V(u, "(*%s)" % f.p[0], f.params[0]["rec"])
        rw = V(u, "RET", f.j["ret_rec"])
        out.append(Contract(f, "byte_range<const>(byte_range<char>)" + at, props={"C11"}, pre=[OBJ(f.p[0], f.params[0]["rec"])],
                            post=[("same-range", "%s == %s && %s == %s" % (rw.begin, ow.begin, rw.end, ow.end))], assigns=[]))
        f = u.root("r_entry_ptrs")
        rw = V(u, "RET", f.j["ret_rec"])
        out.append(Contract(f, "entry_base(ptr,end,block_length)" + at, props={"C03"}, pre=[],
                            post=[("keeps-wire-block-length", "%s == %s" % (rw.field(0), f.p[2])), ("holds-pointers", "%s == %s && %s == %s" % (rw.begin, f.p[0], rw.end, f.p[1]))], assigns=[]))
        f = u.target("r_entry_bl")
        ew = V(u, "(*self)", f.params[0]["rec"])
        out.append(Contract(f, "entry_base::get_block_length" + at, props={"C03"}, pre=[OBJ("self", f.params[0]["rec"])], post=[("wire-block-length", "RET == %s" % ew.field(0))], assigns=[]))
        f = u.target("r_entry_level")
        out.append(Contract(f, "entry_base::get_level" + at, props={"C03"}, pre=[OBJ("self", f.params[0]["rec"])], post=[("level-is-begin", "RET == %s" % ew.begin)], assigns=[]))
    if std in ("c++20", "c++2b"):
        for c in out:
            c.unwind = 10
            c.kind = "exact-by-width(sizeof(T)<=8)"
    return out
