"""The schema corpus: XML -> sbeppc of the current tree -> generated headers -> generated driver -> lowered unit."""
import os

from .build import Unit, ensure_generated, VERIF, CACHE, REPO
from .gendriver import generate
from .oracle import Schema

CORPUS = os.path.join(VERIF, "corpus")

# (name, xml path, schema name passed to sbeppc or None, tier)
LIST = [
    ("prim_le", os.path.join(CORPUS, "prim_le.xml"), None, "quick"),
    ("prim_be", os.path.join(CORPUS, "prim_be.xml"), None, "quick"),
    ("hdr_counts", os.path.join(CORPUS, "hdr_counts.xml"), None, "quick"),
    ("nest3", os.path.join(CORPUS, "nest3.xml"), None, "quick"),
    # the repository's own test schemas (read from /repo, compiled with the explicit schema name the test build uses)
    ("big_endian_schema", os.path.join(REPO, "test", "schemas", "big_endian_schema.xml"), "big_endian_schema", "thorough"),
    ("test_schema2", os.path.join(REPO, "test", "schemas", "test_schema2.xml"), "test_schema2", "thorough"),
    ("traits_test_schema2", os.path.join(REPO, "test", "schemas", "traits_test_schema2.xml"), "traits_test_schema2", "thorough"),
    ("traits_test_schema", os.path.join(REPO, "test", "schemas", "traits_test_schema.xml"), "traits_test_schema", "thorough"),
    ("test_schema", os.path.join(REPO, "test", "schemas", "test_schema.xml"), "test_schema", "thorough"),
    ("dims16", os.path.join(CORPUS, "dims16.xml"), None, "thorough"),
]


class CorpusSchema:
    def __init__(self, name, xml, schema_name, std="c++17", asserts="checked"):
        self.name = name
        self.xml = xml
        self.gen_dir = ensure_generated(xml, schema_name)
        self.schema = Schema(xml)
        os.makedirs(os.path.join(CACHE, "gendrv"), exist_ok=True)
        drv = os.path.join(CACHE, "gendrv", "%s.cpp" % name)
        self.gen = generate(xml, drv, schema_name)
        self.unit = Unit("gen-%s-%s-%s" % (name, std, asserts), drv, std=std, asserts=asserts, incs=[self.gen_dir]).build()


_cache = {}


def schemas(tier, std="c++17", asserts="checked"):
    out = []
    for name, xml, sn, t in LIST:
        if t == "thorough" and tier != "thorough":
            continue
        k = (name, std, asserts)
        if k not in _cache:
            _cache[k] = CorpusSchema(name, xml, sn, std, asserts)
        out.append(_cache[k])
    return out
