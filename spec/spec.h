/* Trusted specification library: byte-level meaning of SBE encodings.
 * Deliberately independent of the code under verification: no memcpy, no
 * bswap, one byte at a time.  Used unchanged by CBMC (contracts) and by the
 * native replay harness. */
#ifndef SBV_SPEC_H
#define SBV_SPEC_H
#include <stddef.h>
#include <stdint.h>

#define SPEC_B(p, i) ((uint64_t)(uint8_t)(((const char *)(p))[(i)]))

/* value of the w-byte field at p; be != 0: big endian */
#define SPEC_LOAD1(p) (SPEC_B(p, 0))
#define SPEC_LOAD2(p, be) ((be) ? (SPEC_B(p, 0) << 8 | SPEC_B(p, 1)) : (SPEC_B(p, 1) << 8 | SPEC_B(p, 0)))
#define SPEC_LOAD4(p, be)                                                                        \
  ((be) ? (SPEC_B(p, 0) << 24 | SPEC_B(p, 1) << 16 | SPEC_B(p, 2) << 8 | SPEC_B(p, 3))            \
        : (SPEC_B(p, 3) << 24 | SPEC_B(p, 2) << 16 | SPEC_B(p, 1) << 8 | SPEC_B(p, 0)))
#define SPEC_LOAD8(p, be)                                                                        \
  ((be) ? (SPEC_B(p, 0) << 56 | SPEC_B(p, 1) << 48 | SPEC_B(p, 2) << 40 | SPEC_B(p, 3) << 32 |     \
           SPEC_B(p, 4) << 24 | SPEC_B(p, 5) << 16 | SPEC_B(p, 6) << 8 | SPEC_B(p, 7))            \
        : (SPEC_B(p, 7) << 56 | SPEC_B(p, 6) << 48 | SPEC_B(p, 5) << 40 | SPEC_B(p, 4) << 32 |     \
           SPEC_B(p, 3) << 24 | SPEC_B(p, 2) << 16 | SPEC_B(p, 1) << 8 | SPEC_B(p, 0)))
#define SPEC_LOAD(p, w, be) \
  ((w) == 1 ? SPEC_LOAD1(p) : (w) == 2 ? SPEC_LOAD2(p, be) : (w) == 4 ? SPEC_LOAD4(p, be) : SPEC_LOAD8(p, be))

/* byte i (memory order) of the w-byte encoding of the unsigned value v */
#define SPEC_BYTE(v, w, be, i) ((uint8_t)(((uint64_t)(v)) >> (8 * ((be) ? ((w)-1 - (i)) : (i)))))

/* bit patterns */
static inline uint32_t spec_f32_bits(float f) { union { float f; uint32_t u; } x; x.f = f; return x.u; }
static inline uint64_t spec_f64_bits(double f) { union { double f; uint64_t u; } x; x.f = f; return x.u; }
#define SPEC_BITS_i8(x)  ((uint64_t)(uint8_t)(x))
#define SPEC_BITS_i16(x) ((uint64_t)(uint16_t)(x))
#define SPEC_BITS_i32(x) ((uint64_t)(uint32_t)(x))
#define SPEC_BITS_i64(x) ((uint64_t)(x))
#define SPEC_BITS_f32(x) ((uint64_t)spec_f32_bits(x))
#define SPEC_BITS_f64(x) ((uint64_t)spec_f64_bits(x))

#define SPEC_IMPLIES(a, b) (!(a) || (b))

/* a condition that only the native replay evaluates (e.g. "the real strlen of this input equals the ghost length"); in the
 * verifier the same fact is carried by the ghost-index stub of the library function */
#ifdef SBV_CPROVER
#define SPEC_NATIVE_ONLY(c) 1
#else
#define SPEC_NATIVE_ONLY(c) (c)
#endif

#ifndef SBV_CPROVER
/* native replay: CBMC primitives used in preconditions */
#define __CPROVER_overflow_mult(a, b) __builtin_mul_overflow_p((a), (b), (__typeof__((a) * (b)))0)
#define __CPROVER_overflow_plus(a, b) __builtin_add_overflow_p((a), (b), (__typeof__((a) + (b)))0)
#define __CPROVER_pointer_in_range_dfcc(lo, p, hi) ((const char *)(lo) <= (const char *)(p) && (const char *)(p) <= (const char *)(hi))
#endif

#endif
