// Native replay support: type-erased calls of the REAL C++ root functions.
// args[i] is the address of the C-side argument for by-value parameters and the
// pointer itself for reference parameters (the lowered C passes references as
// pointers).  Layout equality of lowered structs and C++ classes is pinned by
// the _Static_asserts cxx2c emits from clang's record layout.
#pragma once
#include <cstddef>
#include <cstring>
#include <csetjmp>
#include <type_traits>
#include <utility>

extern "C" {
extern jmp_buf sbv_jmp;
extern int sbv_handler_hits;
extern const char* sbv_handler_expr;
}

namespace sbv_shim
{
template<class T>
struct arg
{
    static T get(void* p)
    {
        alignas(T) unsigned char b[sizeof(T)];
        std::memcpy(b, p, sizeof(T));
        return *reinterpret_cast<T*>(b);
    }
};
template<class T>
struct arg<T&>
{
    static T& get(void* p) { return *static_cast<T*>(p); }
};
template<class T>
struct arg<T&&>
{
    static T&& get(void* p) { return static_cast<T&&>(*static_cast<T*>(p)); }
};

template<class R, class... A, std::size_t... I>
void go(R (*f)(A...), void* ret, void** args, std::index_sequence<I...>)
{
    if constexpr(std::is_void<R>::value)
    {
        (void)ret;
        f(arg<A>::get(args[I])...);
    }
    else if constexpr(std::is_reference<R>::value)
    {
        auto* p = &f(arg<A>::get(args[I])...);
        std::memcpy(ret, &p, sizeof p);
    }
    else
    {
        R r = f(arg<A>::get(args[I])...);
        std::memcpy(ret, &r, sizeof r);
    }
}

template<class F, F f>
struct caller;
template<class R, class... A, R (*f)(A...)>
struct caller<R (*)(A...), f>
{
    static void run(void* ret, void** args) { go<R, A...>(f, ret, args, std::index_sequence_for<A...>{}); }
};
template<class R, class... A, R (*f)(A...) noexcept>
struct caller<R (*)(A...) noexcept, f>
{
    static void run(void* ret, void** args) { go<R, A...>(f, ret, args, std::index_sequence_for<A...>{}); }
};

template<class F, F f>
void call(void* ret, void** args)
{
    (void)args;
    caller<F, f>::run(ret, args);
}
} // namespace sbv_shim
