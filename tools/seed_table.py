#!/usr/bin/env python3
"""Prints the DESIGN.md table rows for the seeded changes of one round (seeded/<id>_<round>/meta.json + tools/seeded_results.json)."""
import glob, json, os, sys
V = os.path.dirname(os.path.dirname(os.path.abspath(__file__)))
rnd = sys.argv[1] if len(sys.argv) > 1 else "3"
res = json.load(open(os.path.join(V, "tools", "seeded_results.json")))
for d in sorted(glob.glob(os.path.join(V, "seeded", "*_" + rnd))):
    sid = os.path.basename(d)
    m = json.load(open(os.path.join(d, "meta.json")))
    s = " ".join(m.get("summary", "").split()).replace("|", "/")
    s = s if len(s) <= 230 else s[:227] + "..."
    r = res.get(sid, {})
    c = "; ".join(r.get("caught_by", [])) or "**missed**"
    if r.get("note"):
        c += " — " + r["note"]
    print("| %s | %s | %s |" % (sid, s, c.replace("|", "/")))
