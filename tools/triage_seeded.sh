#!/bin/bash
# triage_seeded.sh <seeded dir> <property>... : first-pass triage of a seeded change WITHOUT touching /repo: the change is applied to a
# scratch worktree and the quick checks run against it (SBV_REPO), evidence/replay files go to a scratch directory (SBV_OUT).
# Confirmation runs use tools/try_seeded.sh (git apply to /repo itself).
d=$(realpath $1); shift
id=$(basename $d)
wt=/tmp/wt_try_$id
out=/verif/.cache/triage/$id
mkdir -p $out
git -C /repo worktree add -q --detach $wt HEAD || exit 2
git -C $wt apply $d/patch.diff || { echo "patch does not apply"; git -C /repo worktree remove --force $wt; exit 2; }
cd /verif
for p in "$@"; do
  SBV_REPO=$wt SBV_OUT=$out ./check $p --tier quick > $out/$p.out 2> $out/$p.err; rc=$?
  echo "== $id vs $p: exit $rc"; grep -E "^VIOLATION|^C[0-9]+ quick" $out/$p.out | cut -c1-200; grep -E "violated:|TOOL-ERROR|UNDECIDED" $out/$p.err | cut -c1-260 | head -6
done
git -C /repo worktree remove --force $wt
