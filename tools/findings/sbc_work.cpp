// Known finding sbc-work-not-bounded-by-n (C06): size_bytes_checked iterates numInGroup times although every entry has wire blockLength 0,
// so the work is bounded by the (hostile) numInGroup value, not by the buffer length n.  dims16 message F_b8_n64: uint8 blockLength, uint64 numInGroup.
// build: g++ -std=c++17 -O1 -I<generated dims16 dir> -I/repo/sbepp/src sbc_work.cpp
#include <sbepp/sbepp.hpp>
#include <dims16/dims16.hpp>
#include <chrono>
#include <cstdio>
#include <cstring>
int main()
{
    alignas(8) char buf[64] = {};
    auto m = sbepp::make_view<dims16::messages::F_b8_n64>(buf, sizeof(buf));
    sbepp::fill_message_header(m);
    auto g = m.g();
    sbepp::fill_group_header(g, 0);
    auto h = sbepp::get_header(g);
    h.blockLength(0);
    for(unsigned long long n : {1ull << 20, 1ull << 24, 1ull << 28})
    {
        h.numInGroup(n);
        auto t0 = std::chrono::steady_clock::now();
        auto r = sbepp::size_bytes_checked(m, sizeof(buf));
        auto dt = std::chrono::duration<double>(std::chrono::steady_clock::now() - t0).count();
        std::printf("n = 64 bytes, numInGroup = %llu, blockLength = 0: valid=%d size=%zu, %.3f s\n", n, (int)r.valid, r.size, dt);
    }
    return 0;
}
