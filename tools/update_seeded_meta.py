#!/usr/bin/env python3
"""Merges my own confirmation (confirm.json) and detection results (tools/seeded_results.json) into seeded/*/meta.json."""
import json, os, glob
V = os.path.dirname(os.path.dirname(os.path.abspath(__file__)))
res = json.load(open(os.path.join(V, "tools", "seeded_results.json")))
for d in sorted(glob.glob(os.path.join(V, "seeded", "*"))):
    sid = os.path.basename(d)
    mp = os.path.join(d, "meta.json")
    try:
        m = json.load(open(mp))
    except Exception:
        m = {}
    if isinstance(m.get("property"), str) is False:
        m["property"] = sid.split("_")[0]
    cp = os.path.join(d, "confirm.json")
    if os.path.exists(cp):
        c = json.load(open(cp))
        m["confirmed_independently"] = dict(what_i_ran="tools/confirm_seeded.sh %s: git apply in a scratch worktree, cmake --build, full ctest, run_demo.sh with the change, git checkout, run_demo.sh without" % os.path.relpath(d, V), **c)
    r = res.get(sid, {})
    m["detected_by_quick_checks"] = r.get("caught_by", [])
    if r.get("note"):
        m["verification_note"] = r["note"]
    if r.get("missed_by_quick"):
        m["missed_by_quick"] = True
    json.dump(m, open(mp, "w"), indent=1)
print("updated", len(glob.glob(os.path.join(V, "seeded", "*"))))
