// cxx2c: lower instantiated C++ (clang AST) to C99+GNU for CBMC code contracts.
// Every run starts from the real headers; nothing here knows sbepp semantics.
// Unknown constructs abort with exit 2 (never guessed).
#include "clang/AST/ASTConsumer.h"
#include "clang/AST/Mangle.h"
#include "clang/AST/RecordLayout.h"
#include "clang/AST/DeclTemplate.h"
#include "clang/AST/ExprCXX.h"
#include "clang/AST/StmtCXX.h"
#include "clang/AST/RecursiveASTVisitor.h"
#include "clang/Frontend/CompilerInstance.h"
#include "clang/Frontend/FrontendAction.h"
#include "clang/Tooling/CommonOptionsParser.h"
#include "clang/Tooling/Tooling.h"
#include "llvm/Support/CommandLine.h"
#include "llvm/Support/JSON.h"
#include "clang/Basic/Builtins.h"
#include <deque>
#include <map>
#include <set>
#include <sstream>
using namespace clang;

static llvm::cl::OptionCategory Cat("cxx2c");
static llvm::cl::opt<std::string> RootNs("roots", llvm::cl::desc("namespace holding root functions"), llvm::cl::init("sbv"), llvm::cl::cat(Cat));
static llvm::cl::opt<std::string> OutFile("o", llvm::cl::desc("output C file"), llvm::cl::init("lowered.c"), llvm::cl::cat(Cat));
static llvm::cl::opt<std::string> NamesFile("names", llvm::cl::desc("output names.json"), llvm::cl::init(""), llvm::cl::cat(Cat));
static llvm::cl::opt<std::string> ShimFile("shims", llvm::cl::desc("output extern-C shim C++ file"), llvm::cl::init(""), llvm::cl::cat(Cat));

static std::string g_curFnPretty;
[[noreturn]] static void die(const std::string& m, const Stmt* S = nullptr, ASTContext* C = nullptr)
{
    llvm::errs() << "cxx2c: unsupported: " << m << "\n";
    if(!g_curFnPretty.empty()) llvm::errs() << "  while lowering " << g_curFnPretty << "\n";
    if(S && C) { S->getBeginLoc().print(llvm::errs(), C->getSourceManager()); llvm::errs() << "\n"; S->dump(); }
    exit(2);
}

struct Lower
{
    ASTContext& C;
    std::unique_ptr<MangleContext> M;
    std::ostringstream types, protos, bodies;
    std::set<const RecordDecl*> recDone, recInProgress;
    std::set<const FunctionDecl*> fnQueued;
    std::deque<const FunctionDecl*> work;
    std::map<const FunctionDecl*, std::string> fnName;
    // per function state
    std::vector<std::string> temps;
    int tempCounter = 0;
    const CXXRecordDecl* curLambdaThis = nullptr;
    int loopCounter = 0;
    std::string curLambdaThisField;
    std::string curFn;
    bool curInStd = false;
    llvm::json::Array jFuncs, jRecs;
    std::vector<const FunctionDecl*> roots;
    std::ostringstream globals;
    std::set<const VarDecl*> globalDone;
    PrintingPolicy PP() { PrintingPolicy P(C.getLangOpts()); P.SuppressTagKeyword = true; P.FullyQualifiedName = true; P.Bool = true; P.SuppressUnwrittenScope = false; return P; }
    std::string prettyFn(const FunctionDecl* F) { std::string s; llvm::raw_string_ostream os(s); F->getNameForDiagnostic(os, PP(), true); os.flush(); return s; }
    std::string targStr(const TemplateArgument& A) { std::string s; llvm::raw_string_ostream os(s); A.print(PP(), os, true); os.flush(); return s; }

    Lower(ASTContext& c) : C(c), M(c.createMangleContext()) {}

    // ---------- names ----------
    std::string recName(const RecordDecl* R)
    {
        std::string s; llvm::raw_string_ostream os(s);
        M->mangleTypeName(C.getRecordType(R), os); os.flush();
        std::string out = "S";
        for(char ch : s) out += (isalnum((unsigned char)ch) ? ch : '_');
        return out;
    }
    std::string funcName(const FunctionDecl* F)
    {
        F = F->getCanonicalDecl();
        auto it = fnName.find(F);
        if(it != fnName.end()) return it->second;
        std::string s;
        if(F->isExternC() || F->getBuiltinID()) s = F->getName().str();
        else {
            llvm::raw_string_ostream os(s);
            if(auto* cd = dyn_cast<CXXConstructorDecl>(F)) M->mangleName(GlobalDecl(cd, Ctor_Complete), os);
            else if(auto* dd = dyn_cast<CXXDestructorDecl>(F)) M->mangleName(GlobalDecl(dd, Dtor_Complete), os);
            else M->mangleName(GlobalDecl(F), os);
            os.flush();
            for(char& ch : s) if(!isalnum((unsigned char)ch)) ch = '_';
        }
        fnName[F] = s;
        return s;
    }

    // ---------- types ----------
    std::string ctype(QualType T)
    {
        T = T.getCanonicalType().getUnqualifiedType();
        if(auto* B = T->getAs<BuiltinType>())
        {
            switch(B->getKind())
            {
            case BuiltinType::Void: return "void";
            case BuiltinType::Bool: return "_Bool";
            case BuiltinType::Char_S: case BuiltinType::Char_U: return "char";
            case BuiltinType::SChar: return "signed char";
            case BuiltinType::UChar: return "unsigned char";
            case BuiltinType::Short: return "short";
            case BuiltinType::UShort: return "unsigned short";
            case BuiltinType::Int: return "int";
            case BuiltinType::UInt: return "unsigned int";
            case BuiltinType::Long: return "long";
            case BuiltinType::ULong: return "unsigned long";
            case BuiltinType::LongLong: return "long long";
            case BuiltinType::ULongLong: return "unsigned long long";
            case BuiltinType::Float: return "float";
            case BuiltinType::Double: return "double";
            case BuiltinType::NullPtr: return "void *";
            default: die("builtin type " + T.getAsString());
            }
        }
        if(T->isPointerType() || T->isReferenceType())
        {
            QualType P = T->getPointeeType();
            if(P->isFunctionType()) die("function pointer type");
            if(C.getAsConstantArrayType(P)) return cdecl_(T, "");  // pointer/reference to array: T (*)[N]
            return ctype(P) + " *";
        }
        if(auto* E = T->getAs<EnumType>()) return ctype(E->getDecl()->getIntegerType());
        if(auto* R = T->getAs<RecordType>()) { needRecord(R->getDecl()); return "struct " + recName(R->getDecl()); }
        die("type " + T.getAsString());
    }
    // declarator for arrays
    std::string cdecl_(QualType T, const std::string& name)
    {
        T = T.getCanonicalType();
        if(auto* A = C.getAsConstantArrayType(T))
            return cdecl_(A->getElementType(), name + "[" + std::to_string(A->getSize().getZExtValue()) + "]");
        if((T->isPointerType() || T->isReferenceType()) && C.getAsConstantArrayType(T->getPointeeType()))
            return cdecl_(T->getPointeeType(), "(*" + name + ")");
        return ctype(T) + " " + name;
    }
    static std::string baseField(unsigned i) { return "__b" + std::to_string(i); }
    std::string fieldName(const FieldDecl* F)
    {
        if(F->getName().empty()) return "__f" + std::to_string(F->getFieldIndex());
        return F->getName().str();
    }
    void needRecord(const RecordDecl* R0)
    {
        const RecordDecl* R = R0->getDefinition();
        if(!R) die("incomplete record " + R0->getQualifiedNameAsString());
        if(recDone.count(R)) return;
        if(recInProgress.count(R)) return; // pointer cycle; forward decl suffices
        recInProgress.insert(R);
        std::ostringstream def;
        auto* CR = dyn_cast<CXXRecordDecl>(R);
        if(CR && CR->isPolymorphic()) die("polymorphic class");
        if(CR && CR->hasNonTrivialDestructor()) die("non-trivial destructor in " + R->getQualifiedNameAsString());
        def << "struct " << recName(R) << " { /* " << C.getRecordType(R).getAsString() << " */\n";
        unsigned n = 0;
        const ASTRecordLayout& L = C.getASTRecordLayout(R);
        std::ostringstream checks;
        if(CR)
        {
            unsigned bi = 0;
            for(auto& B : CR->bases())
            {
                auto* BD = B.getType()->getAsCXXRecordDecl();
                if(BD->isEmpty()) { bi++; continue; } // empty base: no storage
                def << "  " << ctype(B.getType()) << " " << baseField(bi) << ";\n";
                checks << "_Static_assert(__builtin_offsetof(struct " << recName(R) << ", " << baseField(bi) << ") == "
                       << L.getBaseClassOffset(BD).getQuantity() << ", \"base offset\");\n";
                bi++; n++;
            }
        }
        for(auto* F : R->fields())
        {
            if(F->isBitField()) die("bit-field");
            def << "  " << cdecl_(F->getType(), fieldName(F)) << ";\n";
            checks << "_Static_assert(__builtin_offsetof(struct " << recName(R) << ", " << fieldName(F) << ") == "
                   << L.getFieldOffset(F->getFieldIndex()) / 8 << ", \"field offset\");\n";
            n++;
        }
        if(n == 0) def << "  char __empty;\n";
        def << "};\n";
        checks << "_Static_assert(sizeof(struct " << recName(R) << ") == " << L.getSize().getQuantity() << ", \"sizeof\");\n";
        types << def.str() << checks.str();
        recInProgress.erase(R);
        recDone.insert(R);
        {
            llvm::json::Object o;
            o["cname"] = recName(R);
            o["qual"] = R->getQualifiedNameAsString();
            o["pretty"] = C.getRecordType(R).getAsString(PP());
            o["size"] = (int64_t)L.getSize().getQuantity();
            llvm::json::Array fs, bs, ta;
            if(CR) { unsigned bi = 0; for(auto& B : CR->bases()) { auto* BD = B.getType()->getAsCXXRecordDecl(); llvm::json::Object b; b["field"] = BD->isEmpty() ? std::string("") : baseField(bi); b["cname"] = recName(BD->getDefinition() ? BD->getDefinition() : BD); b["qual"] = BD->getQualifiedNameAsString(); bs.push_back(std::move(b)); bi++; } }
            for(auto* F : R->fields()) { llvm::json::Object f; f["name"] = fieldName(F); f["ctype"] = cdecl_(F->getType(), ""); f["ptr"] = F->getType()->isPointerType() || F->getType()->isReferenceType(); f["rec"] = F->getType()->isRecordType(); fs.push_back(std::move(f)); }
            if(auto* SD = dyn_cast<ClassTemplateSpecializationDecl>(R)) for(auto& A : SD->getTemplateArgs().asArray()) ta.push_back(targStr(A));
            o["fields"] = std::move(fs); o["bases"] = std::move(bs); o["targs"] = std::move(ta);
            jRecs.push_back(std::move(o));
        }
    }

    // ---------- functions ----------
    bool isStd(const Decl* D) { return D->isInStdNamespace() || (D->getDeclContext() && D->getDeclContext()->isStdNamespace()); }
    bool inStd(const FunctionDecl* F)
    {
        for(const DeclContext* DC = F->getDeclContext(); DC; DC = DC->getParent())
            if(auto* NS = dyn_cast<NamespaceDecl>(DC)) if(NS->isStdNamespace()) return true;
        return false;
    }
    void need(const FunctionDecl* F)
    {
        const FunctionDecl* Def = nullptr;
        if(F->isDefined(Def)) F = Def;
        if(fnQueued.insert(F->getCanonicalDecl()).second) work.push_back(F);
    }
    std::string paramName(const ParmVarDecl* P, unsigned i) { return P->getName().empty() ? "__p" + std::to_string(i) : P->getName().str(); }
    std::string signature(const FunctionDecl* F)
    {
        std::ostringstream s;
        bool isCtor = isa<CXXConstructorDecl>(F);
        s << (isCtor ? "void" : ctype(F->getReturnType())) << " " << funcName(F) << "(";
        bool first = true;
        if(auto* MD = dyn_cast<CXXMethodDecl>(F); MD && MD->isInstance())
        { s << "struct " << recName(MD->getParent()) << " *self"; needRecord(MD->getParent()); first = false; }
        unsigned i = 0;
        for(auto* P : F->parameters()) { if(!first) s << ", "; first = false; s << cdecl_(P->getType(), paramName(P, i)); i++; }
        if(first) s << "void";
        s << ")";
        return s.str();
    }

    std::string newTemp(QualType T)
    {
        std::string n = "__t" + std::to_string(tempCounter++);
        temps.push_back(cdecl_(T, n) + ";");
        return n;
    }

    // ---------- expressions ----------
    std::string lit(const llvm::APSInt& V, QualType T)
    {
        std::string v = llvm::toString(V, 10);
        if(T->isBooleanType()) return V.getBoolValue() ? "((_Bool)1)" : "((_Bool)0)";
        std::string suf = V.isUnsigned() ? "ULL" : "LL";
        if(V.isSigned() && V.isMinSignedValue() && V.getBitWidth() == 64) return "((" + ctype(T) + ")(-9223372036854775807LL-1))";
        return "((" + ctype(T) + ")" + v + suf + ")";
    }
    std::string floatLit(const llvm::APFloat& F, QualType T)
    {
        if(F.isNaN()) return "((" + ctype(T) + ")__builtin_nan(\"\"))";
        if(F.isInfinity()) return std::string("((") + ctype(T) + ")" + (F.isNegative() ? "(-__builtin_inf())" : "__builtin_inf()") + ")";
        llvm::SmallString<32> s; F.toString(s, 0, 0);
        return "((" + ctype(T) + ")" + std::string(s.str()) + ")";
    }
    // address of a glvalue expression
    std::string addr(const Expr* E) { return "(&" + lv(E) + ")"; }

    std::string derivedToBase(const CastExpr* CE, const std::string& objLvalue)
    {
        // objLvalue denotes the derived object; walk the path
        std::string cur = objLvalue;
        QualType from = CE->getSubExpr()->getType();
        if(from->isPointerType()) from = from->getPointeeType();
        const CXXRecordDecl* D = from->getAsCXXRecordDecl();
        for(auto it = CE->path_begin(); it != CE->path_end(); ++it)
        {
            const CXXRecordDecl* B = (*it)->getType()->getAsCXXRecordDecl();
            unsigned bi = 0; bool found = false;
            for(auto& BS : D->getDefinition()->bases()) { if(BS.getType()->getAsCXXRecordDecl()->getCanonicalDecl() == B->getCanonicalDecl()) { found = true; break; } bi++; }
            if(!found) die("base path");
            // an empty base has no storage of its own: view the (sub)object's first byte as the empty struct
            if(B->isEmpty()) { needRecord(B); cur = "(*(struct " + recName(B->getDefinition() ? B->getDefinition() : B) + " *)&(" + cur + "))"; }
            else cur = cur + "." + baseField(bi);
            D = B;
        }
        return cur;
    }

    // trivial copy of an object sliced to an EMPTY base class (tag dispatch: iterator categories, sbepp tags): the copy has no state, so
    // it is a zero-initialised value of the base type; the operand is still evaluated. (Avoids a struct-to-struct cast, which CBMC's SMT
    // back ends cannot encode.)
    bool isEmptySlice(const Expr* A)
    {
        A = A->IgnoreParens();
        auto* CE = dyn_cast<CastExpr>(A);
        if(!CE || (CE->getCastKind() != CK_DerivedToBase && CE->getCastKind() != CK_UncheckedDerivedToBase)) return false;
        if(CE->getType()->isPointerType()) return false;
        auto* B = CE->getType()->getAsCXXRecordDecl();
        return B && B->getDefinition() && B->getDefinition()->isEmpty();
    }
    std::string emptySlice(const Expr* A)
    {
        A = A->IgnoreParens();
        auto* CE = cast<CastExpr>(A);
        auto* B = CE->getType()->getAsCXXRecordDecl();
        needRecord(B);
        const Expr* S = CE->getSubExpr();
        std::string ev = S->isGLValue() ? "((void)&(" + lv(S) + "))" : "((void)" + rvOrVoid(S) + ")";
        return "(" + ev + ", (" + ctype(CE->getType()) + "){0})";
    }

    // lower a glvalue expression to a C lvalue
    std::string lv(const Expr* E)
    {
        E = E->IgnoreParens();
        if(auto* X = dyn_cast<ExprWithCleanups>(E)) return lv(X->getSubExpr());
        if(auto* X = dyn_cast<CXXBindTemporaryExpr>(E)) return lv(X->getSubExpr());
        if(auto* X = dyn_cast<SubstNonTypeTemplateParmExpr>(E)) return lv(X->getReplacement());
        if(auto* X = dyn_cast<ConstantExpr>(E)) return lv(X->getSubExpr());
        if(auto* X = dyn_cast<OpaqueValueExpr>(E)) { if(!X->getSourceExpr()) die("opaque value", E, &C); return lv(X->getSourceExpr()); }
        if(auto* CO = dyn_cast<ConditionalOperator>(E)) return "(*(" + rv(CO->getCond()) + " ? " + addr(CO->getTrueExpr()) + " : " + addr(CO->getFalseExpr()) + "))";
        if(auto* D = dyn_cast<DeclRefExpr>(E))
        {
            auto* VD = dyn_cast<VarDecl>(D->getDecl());
            if(!VD) die("lvalue declref to non-var", E, &C);
            std::string n = VD->getName().str();
            if(VD->hasGlobalStorage() && !VD->isStaticLocal()) n = globalVar(VD);
            if(auto* P = dyn_cast<ParmVarDecl>(VD)) n = paramName(P, P->getFunctionScopeIndex());
            if(VD->getType()->isReferenceType()) return "(*" + n + ")";
            return n;
        }
        if(auto* ME = dyn_cast<MemberExpr>(E))
        {
            auto* FD = dyn_cast<FieldDecl>(ME->getMemberDecl());
            if(!FD) die("member lvalue non-field", E, &C);
            std::string b = ME->isArrow() ? "(*" + rv(ME->getBase()) + ")" : lv(ME->getBase());
            std::string r = b + "." + fieldName(FD);
            if(FD->getType()->isReferenceType()) r = "(*" + r + ")";
            return r;
        }
        if(isa<CXXThisExpr>(E)) die("this as lvalue");
        if(auto* U = dyn_cast<UnaryOperator>(E))
        {
            if(U->getOpcode() == UO_Deref) return "(*" + rv(U->getSubExpr()) + ")";
            if(U->getOpcode() == UO_PreInc) return "(*(++" + lv(U->getSubExpr()) + ", &" + lv(U->getSubExpr()) + "))";
            if(U->getOpcode() == UO_PreDec) return "(*(--" + lv(U->getSubExpr()) + ", &" + lv(U->getSubExpr()) + "))";
            die("unary lvalue", E, &C);
        }
        if(auto* CE = dyn_cast<CastExpr>(E))
        {
            switch(CE->getCastKind())
            {
            case CK_NoOp: case CK_LValueBitCast: return lv(CE->getSubExpr());
            case CK_DerivedToBase: case CK_UncheckedDerivedToBase: return derivedToBase(CE, lv(CE->getSubExpr()));
            default: die(std::string("lvalue cast ") + CE->getCastKindName(), E, &C);
            }
        }
        if(auto* MT = dyn_cast<MaterializeTemporaryExpr>(E))
        {
            std::string t = newTemp(MT->getType());
            return "(*(" + initInto(MT->getSubExpr(), t) + ", &" + t + "))";
        }
        if(auto* AS = dyn_cast<ArraySubscriptExpr>(E)) return "(" + rv(AS->getBase()) + ")[" + rv(AS->getIdx()) + "]";
        if(auto* BO = dyn_cast<BinaryOperator>(E))
        {
            if(BO->getOpcode() == BO_Assign) return "(*(" + assign(BO) + ", &" + lv(BO->getLHS()) + "))";
            if(BO->isCompoundAssignmentOp()) return "(*(" + compoundAssign(cast<CompoundAssignOperator>(BO)) + ", &" + lv(BO->getLHS()) + "))";
            if(BO->getOpcode() == BO_Comma) return "(*(" + rvOrVoid(BO->getLHS()) + ", &" + lv(BO->getRHS()) + "))";
        }
        if(auto* CE = dyn_cast<CallExpr>(E))
        {
            // call returning a reference: value is a pointer
            return "(*" + call(CE) + ")";
        }
        if(auto* SL = dyn_cast<StringLiteral>(E)) return strlit(SL);
        if(auto* PE = dyn_cast<PredefinedExpr>(E)) return strlit(PE->getFunctionName());
        die("lvalue kind " + std::string(E->getStmtClassName()), E, &C);
    }
    // APValue -> C initializer (constants only)
    std::string apInit(const APValue& V, QualType T)
    {
        if(V.isInt()) return lit(V.getInt(), T);
        if(V.isFloat()) return floatLit(V.getFloat(), T);
        if(V.isStruct())
        {
            auto* RD = T->getAsCXXRecordDecl(); if(!RD) die("apvalue struct type");
            std::string s = "{"; bool any = false; unsigned bi = 0;
            for(auto& B : RD->bases()) { auto* BD = B.getType()->getAsCXXRecordDecl(); if(!BD->isEmpty()) { s += (any ? ", " : "") + apInit(V.getStructBase(bi), B.getType()); any = true; } bi++; }
            for(auto* F : RD->fields()) { s += (any ? ", " : "") + apInit(V.getStructField(F->getFieldIndex()), F->getType()); any = true; }
            if(!any) s += "0";
            return s + "}";
        }
        if(V.isLValue() && V.isNullPointer()) return "0";
        die("unsupported constant initializer kind for a namespace-scope variable");
    }
    std::string globalVar(const VarDecl* VD)
    {
        VD = VD->getCanonicalDecl();
        std::string s; { llvm::raw_string_ostream os(s); M->mangleName(GlobalDecl(VD), os); }
        for(char& ch : s) if(!isalnum((unsigned char)ch)) ch = '_';
        s = "G_" + s;
        if(globalDone.insert(VD).second)
        {
            const VarDecl* Def = VD->getDefinition() ? VD->getDefinition() : VD;
            if(auto* I = VD->getAnyInitializer(Def)) { (void)I; }
            const APValue* V = Def->evaluateValue();
            if(!Def->getType().isConstQualified() && !Def->isConstexpr()) die("mutable namespace-scope variable " + VD->getQualifiedNameAsString());
            if(!V) die("non-constant namespace-scope variable " + VD->getQualifiedNameAsString());
            std::string ty = cdecl_(Def->getType().getNonReferenceType(), s);
            globals << "static " << ty << " = " << apInit(*V, Def->getType()) << "; /* " << VD->getQualifiedNameAsString() << " */\n";
        }
        return s;
    }
    std::string strlit(const StringLiteral* SL)
    {
        std::string s = "\"";
        for(unsigned char ch : SL->getBytes())
        {
            char buf[8];
            if(ch == '"' || ch == '\\') { s += '\\'; s += ch; }
            else if(ch >= 32 && ch < 127) s += ch;
            else { snprintf(buf, sizeof buf, "\\%03o", ch); s += buf; }
        }
        return s + "\"";
    }
    std::string rvOrVoid(const Expr* E) { return E->getType()->isVoidType() ? "((void)" + rv(E) + ")" : rv(E); }

    std::string assign(const BinaryOperator* BO)
    {
        if(BO->getType()->isRecordType()) die("record assignment via operator=", BO, &C);
        return "(" + lv(BO->getLHS()) + " = " + rv(BO->getRHS()) + ")";
    }
    std::string compoundAssign(const CompoundAssignOperator* CA)
    {
        std::string L = lv(CA->getLHS());
        std::string op = BinaryOperator::getOpcodeStr(BinaryOperator::getOpForCompoundAssignment(CA->getOpcode())).str();
        if(CA->getLHS()->getType()->isPointerType()) return "(" + L + " " + op + "= " + rv(CA->getRHS()) + ")";
        QualType LT = CA->getLHS()->getType(), CT = CA->getComputationLHSType();
        if(op == "<<" && CT->isSignedIntegerType()) { QualType UT = C.getCorrespondingUnsignedType(CT); return "(" + L + " = (" + ctype(LT) + ")(" + ctype(CT) + ")((" + ctype(UT) + ")" + L + " << " + rv(CA->getRHS()) + "))"; }
        return "(" + L + " = (" + ctype(LT) + ")((" + ctype(CT) + ")" + L + " " + op + " " + rv(CA->getRHS()) + "))";
    }

    // initialize C object `target` (an lvalue string) from prvalue/any expr E; returns a C expression (of any type)
    std::string initInto(const Expr* E, const std::string& target)
    {
        const Expr* I = E->IgnoreParens();
        if(auto* X = dyn_cast<ExprWithCleanups>(I)) return initInto(X->getSubExpr(), target);
        if(auto* X = dyn_cast<CXXBindTemporaryExpr>(I)) return initInto(X->getSubExpr(), target);
        if(auto* X = dyn_cast<CXXFunctionalCastExpr>(I); X && (X->getCastKind() == CK_ConstructorConversion || X->getCastKind() == CK_NoOp) && X->getType()->isRecordType()) return initInto(X->getSubExpr(), target);
        if(auto* X = dyn_cast<ImplicitCastExpr>(I); X && X->getCastKind() == CK_ConstructorConversion) return initInto(X->getSubExpr(), target);
        if(auto* CE = dyn_cast<CXXConstructExpr>(I))
        {
            auto* CD = CE->getConstructor();
            if(CD->isCopyOrMoveConstructor() && CD->isTrivial() && isEmptySlice(CE->getArg(0))) return "(" + target + " = " + emptySlice(CE->getArg(0)) + ")";
            if(CD->isCopyOrMoveConstructor() && CD->isTrivial()) return "(" + target + " = " + rv(CE->getArg(0)) + ")";
            if(CD->isDefaultConstructor() && CD->isTrivial()) return "(" + target + " = (" + ctype(CE->getType()) + "){0})";
            need(CD);
            std::string s = funcName(CD) + "(&" + target;
            for(unsigned i = 0; i < CE->getNumArgs(); i++) s += ", " + argFor(CD->getParamDecl(i)->getType(), CE->getArg(i));
            return s + ")";
        }
        if(auto* IL = dyn_cast<InitListExpr>(I); IL && IL->getType()->isRecordType())
        {
            auto* RD = IL->getType()->getAsRecordDecl();
            std::string s = "(" + target + " = (" + ctype(IL->getType()) + "){0}";
            unsigned i = 0;
            if(auto* CR = dyn_cast<CXXRecordDecl>(RD))
            {
                unsigned bi = 0;
                for(auto& B : CR->bases())
                {
                    if(i >= IL->getNumInits()) break;
                    auto* BD = B.getType()->getAsCXXRecordDecl();
                    if(BD->isEmpty()) { const Expr* BI = IL->getInit(i)->IgnoreImplicit(); if(!isa<InitListExpr>(BI) && !isa<ImplicitValueInitExpr>(BI) && !isa<CXXConstructExpr>(BI)) die("initializer of an empty base with possible side effects", I, &C); }
                    else s += ", " + initInto(IL->getInit(i), target + "." + baseField(bi));
                    i++; bi++;
                }
            }
            for(auto* F : RD->fields())
            {
                if(i >= IL->getNumInits()) break;
                // value-initialised members are already zero through the leading `= {0}`
                if(!isa<ImplicitValueInitExpr>(IL->getInit(i)->IgnoreImplicit())) s += ", " + initInto(IL->getInit(i), target + "." + fieldName(F));
                i++;
            }
            return s + ")";
        }
        if(I->getType()->isRecordType() && I->isPRValue())
        {
            // call returning a struct, conditional, etc.
            return "(" + target + " = " + rv(I) + ")";
        }
        if(auto* IL = dyn_cast<InitListExpr>(I))
        {
            if(IL->getNumInits() == 0) return "(" + target + " = (" + ctype(IL->getType()) + ")0)";
            if(IL->getNumInits() == 1 && !IL->getType()->isArrayType()) return "(" + target + " = " + rv(IL->getInit(0)) + ")";
            die("array init list", I, &C);
        }
        return "(" + target + " = " + rv(I) + ")";
    }

    std::string argFor(QualType paramT, const Expr* A)
    {
        if(paramT->isReferenceType()) return addr(A);
        return rv(A);
    }

    std::string call(const CallExpr* CE)
    {
        const FunctionDecl* FD = CE->getDirectCallee();
        if(!FD) die("indirect call", CE, &C);
        std::vector<std::string> args;
        unsigned firstArg = 0;
        auto* MD = dyn_cast<CXXMethodDecl>(FD);
        if(auto* MC = dyn_cast<CXXMemberCallExpr>(CE))
        {
            auto* ME = cast<MemberExpr>(MC->getCallee()->IgnoreParens());
            args.push_back(selfPtr(ME->getBase(), ME->isArrow(), MD));
        }
        else if(auto* OC = dyn_cast<CXXOperatorCallExpr>(CE); OC && MD && MD->isInstance())
        {
            args.push_back(selfPtr(OC->getArg(0), false, MD));
            firstArg = 1;
        }
        // trivial copy/move assignment: struct assignment
        if(MD && (MD->isCopyAssignmentOperator() || MD->isMoveAssignmentOperator()) && MD->isTrivial())
        {
            auto* OC = cast<CXXOperatorCallExpr>(CE);
            std::string L = lv(OC->getArg(0));
            return "(" + L + " = " + rv(OC->getArg(1)) + ", &" + L + ")";
        }
        if(FD->getIdentifier())
        {
            StringRef N = FD->getName();
            if(N == "__builtin_is_constant_evaluated" || (N == "is_constant_evaluated" && inStd(FD)) || N == "__is_constant_evaluated")
                return curInStd ? "((_Bool)0)" : "sbv_is_consteval()";
            if(N == "__builtin_addressof") return addr(CE->getArg(0));
            if(N == "__builtin_expect") return rv(CE->getArg(0));
            if(N == "__builtin_unreachable") return "__CPROVER_assert(0, \"unreachable\")";
            // C library functions (possibly C++ overload wrappers such as const-correct memchr): call the C function
            static const char* libc[] = {"memcpy", "memmove", "memset", "memchr", "strlen", "memcmp", "__builtin_memcpy", "__builtin_memmove", "__builtin_memset", "__builtin_memchr", "__builtin_strlen", "__builtin_memcmp", "__builtin_bswap16", "__builtin_bswap32", "__builtin_bswap64"};
            bool globalOrStd = FD->getDeclContext()->getRedeclContext()->isTranslationUnit() || inStd(FD);
            for(auto* l : libc) if(N == l && globalOrStd)
            {
                std::string nm = N.startswith("__builtin_") && !N.startswith("__builtin_bswap") ? N.substr(10).str() : N.str();
                std::string r = nm + "(";
                for(unsigned i = 0; i < CE->getNumArgs(); i++) r += (i ? ", " : "") + std::string(CE->getArg(i)->getType()->isPointerType() ? "(void *)" : "") + rv(CE->getArg(i));
                r += ")";
                if(CE->getType()->isPointerType()) r = "((" + ctype(CE->getType()) + ")" + r + ")";
                return r;
            }
        }
        if(FD->getBuiltinID() && !FD->isExternC()) die("builtin " + FD->getNameAsString(), CE, &C);
        if(inStd(FD) && !FD->isExternC())
        {
            // try constant folding for argument-less constexpr std functions (numeric_limits)
            Expr::EvalResult R;
            if(CE->getNumArgs() == 0 && CE->EvaluateAsRValue(R, C) && !R.HasSideEffects)
            {
                if(R.Val.isInt()) return lit(R.Val.getInt(), CE->getType());
                if(R.Val.isFloat()) return floatLit(R.Val.getFloat(), CE->getType());
            }
        }
        need(FD);
        for(unsigned i = firstArg; i < CE->getNumArgs(); i++)
        {
            unsigned pi = i - firstArg;
            QualType PT = pi < FD->getNumParams() ? FD->getParamDecl(pi)->getType() : CE->getArg(i)->getType();
            args.push_back(argFor(PT, CE->getArg(i)));
        }
        std::string s = funcName(FD) + "(";
        for(size_t i = 0; i < args.size(); i++) s += (i ? ", " : "") + args[i];
        return s + ")";
    }
    std::string selfPtr(const Expr* Base, bool arrow, const CXXMethodDecl* MD)
    {
        std::string p = arrow ? rv(Base) : addr(Base);
        // object may be of a derived type without an explicit cast node? clang always inserts casts. keep.
        return "((struct " + recName(MD->getParent()) + " *)" + p + ")";
    }

    // prvalue (or converted glvalue read) as a C expression
    std::string rv(const Expr* E)
    {
        if(auto* P = dyn_cast<ParenExpr>(E)) return "(" + rv(P->getSubExpr()) + ")";
        if(auto* X = dyn_cast<ExprWithCleanups>(E)) return rv(X->getSubExpr());
        if(auto* X = dyn_cast<CXXBindTemporaryExpr>(E)) return rv(X->getSubExpr());
        if(auto* X = dyn_cast<ConstantExpr>(E)) return rv(X->getSubExpr());
        if(auto* X = dyn_cast<SubstNonTypeTemplateParmExpr>(E)) return rv(X->getReplacement());
        if(auto* X = dyn_cast<CXXDefaultArgExpr>(E)) return rv(X->getExpr());
        if(auto* X = dyn_cast<CXXDefaultInitExpr>(E)) return rv(X->getExpr());
        if(auto* X = dyn_cast<CXXRewrittenBinaryOperator>(E)) return rv(X->getSemanticForm());
        if(auto* X = dyn_cast<OpaqueValueExpr>(E)) { if(!X->getSourceExpr()) die("opaque value", E, &C); return rv(X->getSourceExpr()); }
        if(E->isGLValue())
        {
            // used where a reference binds / discarded value
            return lv(E);
        }
        if(auto* IL = dyn_cast<IntegerLiteral>(E)) return lit(llvm::APSInt(IL->getValue(), IL->getType()->isUnsignedIntegerType()), IL->getType());
        if(auto* CL = dyn_cast<CharacterLiteral>(E)) return "((" + ctype(CL->getType()) + ")" + std::to_string(CL->getValue()) + ")";
        if(auto* BL = dyn_cast<CXXBoolLiteralExpr>(E)) return BL->getValue() ? "((_Bool)1)" : "((_Bool)0)";
        if(isa<CXXNullPtrLiteralExpr>(E) || isa<GNUNullExpr>(E)) return "((void *)0)";
        if(auto* FL = dyn_cast<FloatingLiteral>(E)) return floatLit(FL->getValue(), FL->getType());
        if(isa<CXXThisExpr>(E)) return curLambdaThisField.empty() ? "self" : "((*self)." + curLambdaThisField + ")";
        if(auto* U = dyn_cast<UnaryExprOrTypeTraitExpr>(E))
        {
            Expr::EvalResult R; if(!E->EvaluateAsInt(R, C)) die("sizeof eval", E, &C);
            return lit(R.Val.getInt(), E->getType());
        }
        if(auto* D = dyn_cast<DeclRefExpr>(E))
        {
            if(auto* EC = dyn_cast<EnumConstantDecl>(D->getDecl())) return lit(EC->getInitVal(), E->getType());
            if(auto* FD = dyn_cast<FunctionDecl>(D->getDecl())) { need(FD); return funcName(FD); }
            die("prvalue declref", E, &C);
        }
        if(auto* BB = dyn_cast<BuiltinBitCastExpr>(E))
        {
            std::string t = newTemp(BB->getType());
            const Expr* S = BB->getSubExpr();
            std::string src = S->isGLValue() ? addr(S) : ("(&" + ([&]{ std::string u = newTemp(S->getType()); return "(*(" + initInto(S, u) + ", &" + u + "))"; })() + ")");
            return "(memcpy((void *)&" + t + ", (void *)" + src + ", sizeof(" + t + ")), " + t + ")";
        }
        if(auto* CE = dyn_cast<CastExpr>(E)) return castExpr(CE);
        if(auto* U = dyn_cast<UnaryOperator>(E))
        {
            switch(U->getOpcode())
            {
            case UO_AddrOf: return addr(U->getSubExpr());
            case UO_Minus: return "(-" + rv(U->getSubExpr()) + ")";
            case UO_Plus: return "(+" + rv(U->getSubExpr()) + ")";
            case UO_Not: return "(~" + rv(U->getSubExpr()) + ")";
            case UO_LNot: return "((_Bool)!" + rv(U->getSubExpr()) + ")";
            case UO_PostInc: return "(" + lv(U->getSubExpr()) + "++)";
            case UO_PostDec: return "(" + lv(U->getSubExpr()) + "--)";
            default: die("unary op", E, &C);
            }
        }
        if(auto* CA = dyn_cast<CompoundAssignOperator>(E)) return compoundAssign(CA);
        if(auto* BO = dyn_cast<BinaryOperator>(E))
        {
            if(BO->getOpcode() == BO_Assign) return assign(BO);
            if(BO->getOpcode() == BO_Comma) return "(" + rvOrVoid(BO->getLHS()) + ", " + rv(BO->getRHS()) + ")";
            std::string op = BO->getOpcodeStr().str();
            if(BO->getOpcode() == BO_Shl && BO->getType()->isSignedIntegerType())
            {
                // C++ (CWG1457 / C++20): signed E1 << E2 is E1 * 2^E2 reduced modulo 2^N; only the shift distance can be UB.
                // Emit the unsigned form so that CBMC's C overflow rule is not applied to a defined C++ expression.
                QualType UT = C.getCorrespondingUnsignedType(BO->getType());
                return "((" + ctype(BO->getType()) + ")(((" + ctype(UT) + ")" + rv(BO->getLHS()) + ") << " + rv(BO->getRHS()) + "))";
            }
            if(BO->isRelationalOp() && BO->getLHS()->getType()->isPointerType() && BO->getRHS()->getType()->isPointerType())
            {
                // flat address space: relational comparison of pointers compares addresses (sbepp compares computed, possibly
                // out-of-object pointers inside its own size checks; that is not an access)
                return "((_Bool)(((unsigned long)" + rv(BO->getLHS()) + ") " + op + " ((unsigned long)" + rv(BO->getRHS()) + ")))";
            }
            std::string r = "(" + rv(BO->getLHS()) + " " + op + " " + rv(BO->getRHS()) + ")";
            if(BO->isComparisonOp() || BO->isLogicalOp()) r = "((_Bool)" + r + ")";
            return r;
        }
        if(auto* CO = dyn_cast<ConditionalOperator>(E))
        {
            if(CO->getType()->isVoidType()) return "(" + rv(CO->getCond()) + " ? " + rvOrVoid(CO->getTrueExpr()) + " : " + rvOrVoid(CO->getFalseExpr()) + ")";
            return "(" + rv(CO->getCond()) + " ? " + rv(CO->getTrueExpr()) + " : " + rv(CO->getFalseExpr()) + ")";
        }
        if(auto* CE = dyn_cast<CXXConstructExpr>(E))
        {
            auto* CD = CE->getConstructor();
            if(CD->isCopyOrMoveConstructor() && CD->isTrivial() && isEmptySlice(CE->getArg(0))) return emptySlice(CE->getArg(0));
            if(CD->isCopyOrMoveConstructor() && CD->isTrivial()) return rv(CE->getArg(0));
            std::string t = newTemp(CE->getType());
            return "(" + initInto(CE, t) + ", " + t + ")";
        }
        if(auto* IL = dyn_cast<InitListExpr>(E))
        {
            if(IL->getType()->isRecordType()) { std::string t = newTemp(IL->getType()); return "(" + initInto(IL, t) + ", " + t + ")"; }
            if(IL->getNumInits() == 0) return "((" + ctype(IL->getType()) + ")0)";
            if(IL->getNumInits() == 1) return rv(IL->getInit(0));
            die("init list", E, &C);
        }
        if(isa<CXXScalarValueInitExpr>(E) || isa<ImplicitValueInitExpr>(E))
        {
            if(E->getType()->isRecordType()) return "((" + ctype(E->getType()) + "){0})";
            return "((" + ctype(E->getType()) + ")0)";
        }
        if(auto* CE = dyn_cast<CallExpr>(E)) return call(CE);
        if(auto* SI = dyn_cast<CXXStdInitializerListExpr>(E))
        {
            // backing array temp + {_M_array, _M_len}
            const Expr* Sub = SI->getSubExpr()->IgnoreImplicit();
            if(auto* MT = dyn_cast<MaterializeTemporaryExpr>(SI->getSubExpr()->IgnoreParens())) Sub = MT->getSubExpr()->IgnoreImplicit();
            auto* AT = C.getAsConstantArrayType(Sub->getType()); if(!AT) die("initializer_list backing array", E, &C);
            auto* IL = dyn_cast<InitListExpr>(Sub); if(!IL) die("initializer_list init", E, &C);
            uint64_t n = AT->getSize().getZExtValue();
            std::string arr = "__t" + std::to_string(tempCounter++);
            temps.push_back(cdecl_(AT->getElementType(), arr + "[" + std::to_string(n ? n : 1) + "]") + ";");
            std::string s = "(";
            for(unsigned i = 0; i < IL->getNumInits(); i++) s += initInto(IL->getInit(i), arr + "[" + std::to_string(i) + "]") + ", ";
            std::string t = newTemp(SI->getType());
            auto* RD = SI->getType()->getAsRecordDecl(); auto fi = RD->field_begin();
            std::string f0 = fieldName(*fi); ++fi; std::string f1 = fieldName(*fi);
            s += t + "." + f0 + " = " + arr + ", " + t + "." + f1 + " = " + std::to_string(n) + "UL, " + t + ")";
            return s;
        }
        if(auto* LE = dyn_cast<LambdaExpr>(E))
        {
            std::string t = newTemp(LE->getType());
            std::string s = "(" + t + " = (" + ctype(LE->getType()) + "){0}";
            auto* RD = LE->getLambdaClass();
            auto fi = RD->field_begin();
            for(auto it = LE->capture_init_begin(); it != LE->capture_init_end(); ++it, ++fi)
                s += ", " + initInto(*it, t + "." + fieldName(*fi));
            return s + ", " + t + ")";
        }
        // type traits (__is_pod, __is_trivial, ...), sizeof... and other compile-time integral expressions: the value clang computes
        if(isa<TypeTraitExpr>(E) || isa<SizeOfPackExpr>(E) || isa<CXXNoexceptExpr>(E))
        {
            Expr::EvalResult R;
            if(!E->isValueDependent() && E->EvaluateAsRValue(R, C) && !R.HasSideEffects && R.Val.isInt())
            {
                if(E->getType()->isBooleanType()) return R.Val.getInt().getBoolValue() ? "((_Bool)1)" : "((_Bool)0)";
                return lit(R.Val.getInt(), E->getType());
            }
        }
        die("rvalue kind " + std::string(E->getStmtClassName()), E, &C);
    }

    std::string castExpr(const CastExpr* CE)
    {
        const Expr* S = CE->getSubExpr();
        QualType T = CE->getType();
        switch(CE->getCastKind())
        {
        case CK_LValueToRValue:
            // reading a scalar namespace-scope / static-member constant: use its value (DFCC treats globals as arbitrary at function entry)
            if(auto* D = dyn_cast<DeclRefExpr>(S->IgnoreParens()))
                if(auto* VD = dyn_cast<VarDecl>(D->getDecl()); VD && VD->hasGlobalStorage() && !VD->isStaticLocal() && T->isScalarType() && !T->isPointerType()
                   && (VD->getType().isConstQualified() || VD->isConstexpr()))
                {
                    const VarDecl* Def = VD->getDefinition() ? VD->getDefinition() : VD;
                    if(const APValue* V = Def->evaluateValue()) if(V->isInt() || V->isFloat()) return apInit(*V, T);
                }
            return lv(S);
        case CK_NoOp:
            if(T->isRecordType()) return rv(S);
            return "((" + ctype(T) + ")" + rv(S) + ")";
        case CK_IntegralCast: case CK_IntegralToBoolean: case CK_IntegralToFloating: case CK_FloatingToIntegral:
        case CK_FloatingCast: case CK_FloatingToBoolean: case CK_PointerToBoolean: case CK_BooleanToSignedIntegral:
        case CK_BitCast: case CK_IntegralToPointer: case CK_PointerToIntegral:
            return "((" + ctype(T) + ")" + rv(S) + ")";
        case CK_NullToPointer: return "((" + ctype(T) + ")0)";
        case CK_ArrayToPointerDecay: return "((" + ctype(T) + ")" + lv(S) + ")";
        case CK_FunctionToPointerDecay: case CK_BuiltinFnToFnPtr: return rv(S);
        case CK_ToVoid: return "((void)" + rvOrVoid(S) + ")";
        case CK_ConstructorConversion: case CK_UserDefinedConversion: return rv(S);
        case CK_DerivedToBase: case CK_UncheckedDerivedToBase:
            if(T->isPointerType()) return "(&" + derivedToBase(CE, "(*" + rv(S) + ")") + ")";
            // prvalue of class type sliced to base
            { std::string t = newTemp(S->getType()); return "(" + initInto(S, t) + ", " + derivedToBase(CE, t) + ")"; }
        default: die(std::string("cast kind ") + CE->getCastKindName(), CE, &C);
        }
    }

    // ---------- statements ----------
    void stmt(const Stmt* S, std::ostream& o, int ind)
    {
        std::string pad(ind * 2, ' ');
        if(!S) return;
        if(auto* CS = dyn_cast<CompoundStmt>(S)) { o << pad << "{\n"; for(auto* c : CS->body()) stmt(c, o, ind + 1); o << pad << "}\n"; return; }
        if(auto* DS = dyn_cast<DeclStmt>(S))
        {
            for(auto* D : DS->decls())
            {
                if(isa<TypedefNameDecl>(D) || isa<StaticAssertDecl>(D) || isa<UsingDecl>(D) || isa<TagDecl>(D)) continue;
                auto* VD = dyn_cast<VarDecl>(D); if(!VD) die("decl in DeclStmt", S, &C);
                varDecl(VD, o, pad);
            }
            return;
        }
        if(auto* RS = dyn_cast<ReturnStmt>(S))
        {
            if(!RS->getRetValue()) { o << pad << "return;\n"; return; }
            const Expr* R = RS->getRetValue();
            if(curRetRef) { o << pad << "return " << addr(R) << ";\n"; return; }
            if(R->getType()->isVoidType()) { o << pad << rv(R) << "; return;\n"; return; }
            if(R->getType()->isRecordType()) { o << pad << "{ " << ctype(R->getType()) << " __ret; " << initInto(R, "__ret") << "; return __ret; }\n"; return; }
            o << pad << "return " << rv(R) << ";\n"; return;
        }
        if(auto* IS = dyn_cast<IfStmt>(S))
        {
            if(IS->isConstexpr())
            {
                Expr::EvalResult R; if(!IS->getCond()->EvaluateAsInt(R, C)) die("if constexpr cond", S, &C);
                const Stmt* T = R.Val.getInt().getBoolValue() ? IS->getThen() : IS->getElse();
                if(T) stmtBlock(T, o, ind);
                return;
            }
            o << pad << "{\n";
            if(IS->getInit()) stmt(IS->getInit(), o, ind + 1);
            if(IS->getConditionVariable()) varDecl(IS->getConditionVariable(), o, pad + "  ");
            o << pad << "if(" << rv(IS->getCond()) << ")\n"; stmtBlock(IS->getThen(), o, ind);
            if(IS->getElse()) { o << pad << "else\n"; stmtBlock(IS->getElse(), o, ind); }
            o << pad << "}\n";
            return;
        }
        if(auto* FS = dyn_cast<ForStmt>(S))
        {
            o << pad << "{\n"; if(FS->getInit()) stmt(FS->getInit(), o, ind + 1);
            if(FS->getConditionVariable()) die("for with condition variable", S, &C);
            o << pad << "  for(; " << (FS->getCond() ? rv(FS->getCond()) : "1") << "; " << (FS->getInc() ? rvOrVoid(FS->getInc()) : "") << ")\n";
            o << pad << "  " << loopMarker() << "\n";
            o << pad << "  { SBV_STEP;\n"; stmtBlock(FS->getBody(), o, ind + 2); o << pad << "  }\n" << pad << "}\n"; return;
        }
        if(auto* WS = dyn_cast<WhileStmt>(S)) { if(WS->getConditionVariable()) die("while with condition variable", S, &C); o << pad << "while(" << rv(WS->getCond()) << ")\n" << pad << loopMarker() << "\n" << pad << "{ SBV_STEP;\n"; stmtBlock(WS->getBody(), o, ind + 1); o << pad << "}\n"; return; }
        if(auto* FR = dyn_cast<CXXForRangeStmt>(S))
        {
            o << pad << "{\n";
            stmt(FR->getRangeStmt(), o, ind + 1); stmt(FR->getBeginStmt(), o, ind + 1); stmt(FR->getEndStmt(), o, ind + 1);
            if(FR->getInit()) stmt(FR->getInit(), o, ind + 1);
            o << pad << "  for(; " << rv(FR->getCond()) << "; " << rvOrVoid(FR->getInc()) << ")\n" << pad << "  " << loopMarker() << "\n";
            o << pad << "  { SBV_STEP;\n"; stmt(FR->getLoopVarStmt(), o, ind + 2); stmt(FR->getBody(), o, ind + 2); o << pad << "  }\n";
            o << pad << "}\n"; return;
        }
        if(auto* SS = dyn_cast<SwitchStmt>(S))
        {
            if(SS->getInit() || SS->getConditionVariable()) die("switch with init", S, &C);
            o << pad << "switch(" << rv(SS->getCond()) << ")\n"; stmtBlock(SS->getBody(), o, ind); return;
        }
        if(auto* CS = dyn_cast<CaseStmt>(S))
        {
            Expr::EvalResult R; if(!CS->getLHS()->EvaluateAsInt(R, C) || CS->getRHS()) die("case label", S, &C);
            o << pad << "case " << llvm::toString(R.Val.getInt(), 10) << ":\n"; stmt(CS->getSubStmt(), o, ind + 1); return;
        }
        if(auto* DS = dyn_cast<DefaultStmt>(S)) { o << pad << "default:\n"; stmt(DS->getSubStmt(), o, ind + 1); return; }
        if(auto* AS = dyn_cast<AttributedStmt>(S)) { stmt(AS->getSubStmt(), o, ind); return; }
        if(auto* DS = dyn_cast<DoStmt>(S)) { std::string lm = loopMarker(); o << pad << "do\n" << pad << "{ SBV_STEP;\n"; stmtBlock(DS->getBody(), o, ind + 1); o << pad << "}\n" << pad << "while(" << rv(DS->getCond()) << ") " << lm << ";\n"; return; }
        if(isa<NullStmt>(S)) { o << pad << ";\n"; return; }
        if(isa<BreakStmt>(S)) { o << pad << "break;\n"; return; }
        if(isa<ContinueStmt>(S)) { o << pad << "continue;\n"; return; }
        if(auto* E = dyn_cast<Expr>(S)) { o << pad << rvOrVoid(E) << ";\n"; return; }
        die("statement " + std::string(S->getStmtClassName()), S, &C);
    }
    std::string loopMarker() { return "/*@LOOP " + curFn + " " + std::to_string(loopCounter++) + "@*/"; }
    void stmtBlock(const Stmt* S, std::ostream& o, int ind)
    {
        if(isa<CompoundStmt>(S)) stmt(S, o, ind);
        else { o << std::string(ind * 2, ' ') << "{\n"; stmt(S, o, ind + 1); o << std::string(ind * 2, ' ') << "}\n"; }
    }
    void varDecl(const VarDecl* VD, std::ostream& o, const std::string& pad)
    {
        std::string n = VD->getName().str();
        QualType T = VD->getType();
        if(T->isReferenceType())
        {
            o << pad << ctype(T) << " " << n << " = " << addr(VD->getInit()) << ";\n"; return;
        }
        o << pad << cdecl_(T, n) << ";\n";
        if(VD->hasInit()) o << pad << initInto(VD->getInit(), n) << ";\n";
    }

    bool curRetRef = false;

    void function(const FunctionDecl* F)
    {
        if(!F->doesThisDeclarationHaveABody())
        {
            if(F->isExternC() || F->getBuiltinID()) return; // libc / builtin: declared by headers or known to CBMC
            protos << signature(F) << "; /* no body: " << F->getQualifiedNameAsString() << " */\n";
            funcJson(F, false);
            return;
        }
        temps.clear(); tempCounter = 0; loopCounter = 0; curFn = funcName(F); curInStd = inStd(F); g_curFnPretty = prettyFn(F);
        curLambdaThisField.clear();
        if(auto* MD = dyn_cast<CXXMethodDecl>(F); MD && MD->getParent()->isLambda())
        {
            // inside a lambda body `this` is the captured enclosing object, not the closure
            llvm::DenseMap<const VarDecl*, FieldDecl*> Caps; FieldDecl* ThisCap = nullptr;
            MD->getParent()->getCaptureFields(Caps, ThisCap);
            if(ThisCap) curLambdaThisField = fieldName(ThisCap);
        }
        curRetRef = F->getReturnType()->isReferenceType();
        std::ostringstream body;
        if(auto* CD = dyn_cast<CXXConstructorDecl>(F))
        {
            const CXXRecordDecl* RD = CD->getParent();
            for(auto* I : CD->inits())
            {
                if(I->isBaseInitializer() || I->isDelegatingInitializer())
                {
                    std::string target;
                    if(I->isDelegatingInitializer()) target = "(*self)";
                    else
                    {
                        const CXXRecordDecl* B = I->getBaseClass()->getAsCXXRecordDecl();
                        if(B->isEmpty()) continue;
                        unsigned bi = 0; for(auto& BS : RD->bases()) { if(BS.getType()->getAsCXXRecordDecl()->getCanonicalDecl() == B->getCanonicalDecl()) break; bi++; }
                        target = "self->" + baseField(bi);
                    }
                    const Expr* IE = I->getInit();
                    if(auto* IH = dyn_cast<CXXInheritedCtorInitExpr>(IE))
                    {
                        auto* BC = IH->getConstructor(); need(BC);
                        std::string s = funcName(BC) + "(&" + target;
                        unsigned i = 0; for(auto* P : CD->parameters()) s += ", " + paramName(P, i++);
                        body << "  " << s << ");\n";
                    }
                    else body << "  " << initInto(IE, target) << ";\n";
                }
                else if(I->isMemberInitializer())
                {
                    auto* FD = I->getMember();
                    body << "  " << initInto(I->getInit(), "self->" + fieldName(FD)) << ";\n";
                }
                else die("ctor initializer kind");
            }
        }
        std::ostringstream b2;
        stmt(F->getBody(), b2, 1);
        bodies << "/* " << prettyFn(F) << " :: " << F->getType().getAsString() << " */\n";
        bodies << "/*@BEGIN " << funcName(F) << "@*/\n";
        bodies << signature(F) << "\n/*@CONTRACT " << funcName(F) << "@*/\n{\n";
        // temps are known only after lowering the body
        std::string tb = body.str(), sb = b2.str();
        for(auto& t : temps) bodies << "  " << t << "\n";
        bodies << tb << sb << "}\n/*@END " << funcName(F) << "@*/\n\n";
        protos << signature(F) << ";\n";
        funcJson(F, true);
    }

    // if F's body is exactly `return callee(p0, p1, ...)` (or the void form) with its own parameters in order, return callee
    const FunctionDecl* forwardsTo(const FunctionDecl* F)
    {
        auto* CS = dyn_cast_or_null<CompoundStmt>(F->getBody());
        if(!CS || CS->size() != 1) return nullptr;
        const Stmt* S = *CS->body_begin();
        const Expr* E = nullptr;
        if(auto* RS = dyn_cast<ReturnStmt>(S)) E = RS->getRetValue(); else E = dyn_cast<Expr>(S);
        if(!E) return nullptr;
        E = E->IgnoreImplicit()->IgnoreParens();
        while(true)
        {
            if(auto* X = dyn_cast<ExplicitCastExpr>(E)) { E = X->getSubExpr()->IgnoreImplicit()->IgnoreParens(); continue; }
            if(auto* X = dyn_cast<ImplicitCastExpr>(E)) { E = X->getSubExpr()->IgnoreImplicit()->IgnoreParens(); continue; }
            if(auto* X = dyn_cast<ExprWithCleanups>(E)) { E = X->getSubExpr()->IgnoreImplicit()->IgnoreParens(); continue; }
            if(auto* X = dyn_cast<CXXConstructExpr>(E); X && X->getNumArgs() == 1 && X->getConstructor()->isCopyOrMoveConstructor()) { E = X->getArg(0)->IgnoreImplicit()->IgnoreParens(); continue; }
            if(auto* X = dyn_cast<MaterializeTemporaryExpr>(E)) { E = X->getSubExpr()->IgnoreImplicit()->IgnoreParens(); continue; }
            break;
        }
        auto* CE = dyn_cast<CallExpr>(E);
        if(!CE || !CE->getDirectCallee()) return nullptr;
        return CE->getDirectCallee();
    }
    void funcJson(const FunctionDecl* F, bool hasBody)
    {
        auto& SM = C.getSourceManager();
        llvm::json::Object o;
        o["mangled"] = funcName(F);
        o["qual"] = F->getQualifiedNameAsString();
        o["pretty"] = prettyFn(F);
        o["type"] = F->getType().getAsString(PP());
        o["has_body"] = hasBody;
        o["loops"] = loopCounter;
        o["is_ctor"] = isa<CXXConstructorDecl>(F);
        bool isRoot = false;
        for(auto* R : roots) if(R->getCanonicalDecl() == F->getCanonicalDecl()) isRoot = true;
        o["root"] = isRoot;
        o["in_std"] = inStd(F);
        auto PL = SM.getPresumedLoc(SM.getExpansionLoc(F->getBeginLoc())), PE = SM.getPresumedLoc(SM.getExpansionLoc(F->getEndLoc()));
        if(PL.isValid()) { o["file"] = PL.getFilename(); o["line"] = (int64_t)PL.getLine(); o["end_line"] = (int64_t)(PE.isValid() ? PE.getLine() : PL.getLine()); }
        llvm::json::Array ps, ta, cta;
        if(auto* MD = dyn_cast<CXXMethodDecl>(F); MD && MD->isInstance())
        {
            llvm::json::Object p; p["name"] = "self"; p["ctype"] = "struct " + recName(MD->getParent()) + " *"; p["ref"] = true; p["rec"] = recName(MD->getParent());
            p["const"] = MD->isConst();
            ps.push_back(std::move(p));
            o["self"] = recName(MD->getParent());
        }
        unsigned i = 0;
        for(auto* P : F->parameters())
        {
            llvm::json::Object p; p["name"] = paramName(P, i++); p["ctype"] = ctype(P->getType()); p["ref"] = P->getType()->isReferenceType();
            QualType PT = P->getType().getNonReferenceType();
            if(PT->isPointerType() && P->getType()->isPointerType()) PT = PT->getPointeeType();
            if(auto* RT = PT->getAs<RecordType>()) p["rec"] = recName(RT->getDecl());
            p["const"] = P->getType().getNonReferenceType().isConstQualified() || (P->getType()->isPointerType() && P->getType()->getPointeeType().isConstQualified());
            ps.push_back(std::move(p));
        }
        o["params"] = std::move(ps);
        o["ret"] = isa<CXXConstructorDecl>(F) ? std::string("void") : ctype(F->getReturnType());
        o["ret_ref"] = F->getReturnType()->isReferenceType();
        if(auto* RT = F->getReturnType().getNonReferenceType()->getAs<RecordType>()) o["ret_rec"] = recName(RT->getDecl());
        if(auto* TA = F->getTemplateSpecializationArgs()) for(auto& A : TA->asArray()) ta.push_back(targStr(A));
        if(auto* MD = dyn_cast<CXXMethodDecl>(F)) if(auto* SD = dyn_cast<ClassTemplateSpecializationDecl>(MD->getParent())) for(auto& A : SD->getTemplateArgs().asArray()) cta.push_back(targStr(A));
        o["targs"] = std::move(ta); o["class_targs"] = std::move(cta);
        if(hasBody) if(auto* T = forwardsTo(F)) o["forwards_to"] = funcName(T);
        jFuncs.push_back(std::move(o));
    }
    void run()
    {
        // roots: every function defined in namespace RootNs
        for(auto* D : C.getTranslationUnitDecl()->decls())
            if(auto* NS = dyn_cast<NamespaceDecl>(D); NS && NS->getName() == RootNs.getValue())
                for(auto* X : NS->decls()) if(auto* F = dyn_cast<FunctionDecl>(X); F && F->hasBody() && F->getIdentifier() && F->getName().startswith("r_")) { roots.push_back(F); need(F); }
        size_t n = 0;
        while(!work.empty()) { auto* F = work.front(); work.pop_front(); function(F); n++; }
        std::error_code EC; llvm::raw_fd_ostream out(OutFile.getValue(), EC);
        out << "/* generated by cxx2c; " << n << " functions */\n#include <stddef.h>\n#include <string.h>\n#ifndef SBV_STEP\n#define SBV_STEP\n#endif\n_Bool sbv_is_consteval(void);\n";
        out << "/*@TYPES_BEGIN@*/\n" << types.str() << "/*@TYPES_END@*/\n" << globals.str() << "\n" << protos.str() << "\n" << bodies.str();
        if(!NamesFile.getValue().empty())
        {
            llvm::json::Object top; top["functions"] = std::move(jFuncs); top["records"] = std::move(jRecs);
            std::error_code EC2; llvm::raw_fd_ostream jo(NamesFile.getValue(), EC2);
            jo << llvm::formatv("{0:2}", llvm::json::Value(std::move(top))) << "\n";
        }
        if(!ShimFile.getValue().empty())
        {
            std::error_code EC3; llvm::raw_fd_ostream so(ShimFile.getValue(), EC3);
            so << "// generated by cxx2c: extern \"C\" entry points calling the REAL C++ root functions\n#include \"sbv_shim.hpp\"\n";
            for(auto* R : roots) so << "extern \"C\" void shim_" << funcName(R) << "(void* ret, void** args) { sbv_shim::call<decltype(&" << R->getQualifiedNameAsString() << "), &" << R->getQualifiedNameAsString() << ">(ret, args); }\n";
        }
        llvm::errs() << "cxx2c: lowered " << n << " functions, " << recDone.size() << " records\n";
    }
};

struct Cons : ASTConsumer { void HandleTranslationUnit(ASTContext& C) override { if(C.getDiagnostics().hasErrorOccurred()) exit(2); Lower L(C); L.run(); } };
struct Act : ASTFrontendAction { std::unique_ptr<ASTConsumer> CreateASTConsumer(CompilerInstance&, StringRef) override { return std::make_unique<Cons>(); } };
int main(int argc, const char** argv)
{
    auto P = tooling::CommonOptionsParser::create(argc, argv, Cat);
    if(!P) { llvm::errs() << P.takeError(); return 1; }
    tooling::ClangTool T(P->getCompilations(), P->getSourcePathList());
    return T.run(tooling::newFrontendActionFactory<Act>().get());
}
