#!/bin/bash
# Confirms a seeded change independently in a scratch worktree: applies, builds, runs the whole suite, runs the demo
# (must fail), reverts, runs the demo (must pass). Usage: confirm_seeded.sh <seeded dir>...   Results: <dir>/confirm.json
WT=/tmp/wt_confirm
set -u
if [ ! -d $WT ]; then git -C /repo worktree add -q --detach $WT HEAD || exit 2; fi
git -C $WT checkout -q --detach $(git -C /repo rev-parse HEAD); git -C $WT checkout -q -- .
if [ ! -d $WT/_build ]; then cmake -G Ninja -S $WT -B $WT/_build -DCMAKE_BUILD_TYPE=RelWithDebInfo -DCMAKE_CXX_FLAGS=-Wno-error -DSBEPP_BUILD_TESTS=ON -DSBEPP_BUILD_SBEPPC=ON -DSBEPP_DEV_MODE=ON -DSBEPP_SEPARATE_TESTS=ON -DSBEPP_BUILD_BENCHMARK=OFF -DSBEPP_BUILD_DOCS=OFF -DGTest_DIR=/root/miniconda/lib/cmake/GTest -Dfmt_DIR=/root/miniconda/lib/cmake/fmt -Dpugixml_DIR=/usr/lib/x86_64-linux-gnu/cmake/pugixml >/dev/null 2>&1 || exit 2; fi
for d in "$@"; do
  d=$(realpath $d)
  git -C $WT checkout -q -- .
  if ! git -C $WT apply $d/patch.diff 2>$d/confirm.log; then echo "{\"applies\": false}" > $d/confirm.json; echo "$d: patch does not apply"; continue; fi
  cmake --build $WT/_build -j10 >>$d/confirm.log 2>&1; b=$?
  s="not run"; t=1
  if [ $b -eq 0 ]; then s=$(ctest --test-dir $WT/_build -j8 --timeout 900 2>&1 | grep "tests passed" ); t=$?; fi
  bash $d/run_demo.sh $WT >>$d/confirm.log 2>&1; dw=$?
  git -C $WT checkout -q -- .
  bash $d/run_demo.sh $WT >>$d/confirm.log 2>&1; dwo=$?
  echo "{\"applies\": true, \"build_rc\": $b, \"suite\": \"$s\", \"demo_with_change_rc\": $dw, \"demo_without_change_rc\": $dwo, \"base\": \"$(git -C /repo rev-parse --short HEAD)\"}" > $d/confirm.json
  echo "$d: build=$b suite=[$s] demo_with=$dw demo_without=$dwo"
done
git -C $WT checkout -q -- .
