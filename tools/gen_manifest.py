#!/usr/bin/env python3
"""Regenerates /verif/MANIFEST.json from the tables below (keeps it schema-valid at all times)."""
import json, os
V = os.path.dirname(os.path.dirname(os.path.abspath(__file__)))

TECH = "CBMC code contracts (DFCC) enforced per function on C lowered from the real instantiated C++ by cxx2c"
NOTE_COMMON = ("Trusted: clang-14 front end + cxx2c lowering (layouts pinned by static asserts, every implicit conversion made explicit), CBMC 6.11 DFCC and its libc models, "
               "minisat/kissat/z3/cvc5, spec/spec.h. x86-64 little-endian host. Generated-code obligations are per corpus schema (schema quantifier not closed).")

CLAIMED = {
    # id: (category, text, design_ref, extra note)
}
NA = {
}

def load_tables():
    import importlib.util
    spec = importlib.util.spec_from_file_location("claims", os.path.join(V, "tools", "claims.py"))
    m = importlib.util.module_from_spec(spec); spec.loader.exec_module(m)
    return m.CLAIMED, m.NA

def main():
    claimed, na = load_tables()
    checks = []
    for pid in sorted(claimed):
        cat, text, ref, note = claimed[pid]
        checks.append(dict(property_id=pid, quick_cmd="./check %s --tier quick" % pid, thorough_cmd="./check %s --tier thorough" % pid,
                           evidence_file="/verif/evidence/%s.json" % pid, replay_cmd_template="./check %s --replay {path}" % pid, engine="sbv",
                           level_claimed=dict(category=cat, text=text, design_ref=ref), level_note=NOTE_COMMON + " " + note, technique=TECH))
    man = dict(version=1, setup_cmd="./setup.sh",
               hooks=dict(guard="SBEPP_VERIF", enable="no hooks are needed: the checks lower /repo's headers as they are (ghost step counters and reach canaries are added to the lowered text, not to /repo)",
                          baseline_off_cmd="cmake --build /repo/_build -j16 && ctest --test-dir /repo/_build -j8 --timeout 900", source_commits=[], add_only=True),
               engines=[dict(name="sbv", path="/verif/sbv", serves_properties=sorted(claimed), kind_free_text="cxx2c (clang-14 libTooling C++ -> C lowering) + Python contract emitter + CBMC DFCC + native replay through extern-C shims of the real C++")],
               checks=checks,
               notes="Exit 2 of a check means undecided/tool error (solver budget, lowering abort, corpus schema rejected by an edited sbeppc) and is never a verdict. Fix commits in /repo are listed in known_findings.json under 'fixed'.",
               not_applicable=[dict(property_id=k, reason=v) for k, v in sorted(na.items())])
    json.dump(man, open(os.path.join(V, "MANIFEST.json"), "w"), indent=1)
    print("MANIFEST.json: %d checks, %d not applicable" % (len(checks), len(na)))

main()
