"""What MANIFEST.json claims. Edited by hand as coverage grows; tools/gen_manifest.py renders it."""
CLAIMED = {
    "C15": ("proof",
            "bitset_base<T> get_bit/set_bit/raw access/==/!=/constructors proved bit-exactly against a 64-bit spec for all 2^W values x all indices x both bool values, W in {8,16,32,64}, with shift-distance checks on; loop-free, so unbounded.",
            "DESIGN.md section 6 C15", "Generated choice accessors/visit are covered per corpus schema only."),
}
_PENDING = "contracts for this property are not registered yet in this revision (work in progress, see DESIGN.md section 6)"
NA = {
    "C07": "whether generated text compiles under ten compiler configurations is not a pre/postcondition of any function; sbeppc's generators (C++17/STL/fmt/pugixml) are outside every installed deductive verifier",
    "C08": "accept/reject logic lives in schema_parser/sbe_schema_validator (std::string/variant/unordered_map/exceptions/pugixml): CBMC's C++ front end cannot parse it and cxx2c cannot lower libstdc++ containers; a C re-implementation would be a model",
    "C09": "whole-process totality over arbitrary bytes/argv (uncaught exceptions, hangs, leftover files) is not expressible as function contracts on code within the verifier's reach",
    "C20": "behaviour under failing mkdir/open/write goes through std::ofstream/std::filesystem; a contract would have to assume a model of iostreams",
}
for _p in ["C01", "C02", "C03", "C04", "C05", "C06", "C10", "C11", "C12", "C13", "C14", "C16", "C17", "C18", "C19"]:
    if _p not in CLAIMED:
        NA[_p] = _PENDING
