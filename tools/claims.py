"""What MANIFEST.json claims. Edited by hand as coverage grows; tools/gen_manifest.py renders it."""
LIB = "Library layer (sbepp.hpp templates) is proved for all inputs; "
GEN = "generated-code layer is translation validation per corpus schema (corpus/*.xml) against sbv/oracle.py. "
CLAIMED = {
    "C01": ("proof", LIB + "set_primitive/set_value/cursor setters/group resize write exactly the spec byte image and nothing else (assigns clauses), 11 primitives x 2 byte orders, checked and unchecked builds; " + GEN +
            "Every generated setter of every corpus level writes exactly the member bytes at the oracle's offset.", "DESIGN.md 6 C01", "Whole-message composition is argued from per-setter frames (each setter assigns only its member bytes)."),
    "C02": ("proof", LIB + "get_primitive/get_value/static views/cursor getters return SPEC_LOAD of the byte image, bit-exact incl. float NaN payloads, both byte orders, checked+unchecked; " + GEN +
            "every generated getter of every corpus level returns the oracle's field.", "DESIGN.md 6 C02", "C++17 lowering; constant evaluation is covered only as far as it executes the same statements."),
    "C03": ("proof", LIB + "every geometry postcondition is stated over the wire blockLength/numInGroup read from the buffer (first dynamic member, entries, iterators, cursor 'last' methods); " + GEN +
            "generated getters verified with symbolic wire block lengths.", "DESIGN.md 6 C03", ""),
    "C04": ("proof", LIB + "each accessor method of cursor and of the init/init_dont_move/dont_move/skip wrappers: agrees with random access, documented end position, wrong position reported (S) / legal call never reported (N); cursor ranges and input iterators.",
            "DESIGN.md 6 C04", "Generated cursor offset pairs are covered per corpus schema by the traversal lemmas when registered."),
    "C05": ("proof", LIB + "flat group size_bytes equals HDR + numInGroup*blockLength as a mathematical product (no wrap) for every dimension type pair; nested size_bytes closed by a loop contract; data/array size_bytes exact.", "DESIGN.md 6 C05", ""),
    "C10": ("proof", "Two obligations per function that checks or dereferences: (S) handler=assume(false): CBMC pointer/bounds checks pass for any buffer length; (N) documented preconditions + in-bounds => handler unreachable.", "DESIGN.md 6 C10",
            "Known finding: uint64 wire blockLength >= 2^63 wraps the pointer (listed in known_findings.json)."),
    "C11": ("proof", "Every non-mutating function under contract carries an empty assigns clause (or only the cursor position) enforced by DFCC frame instrumentation; conversions towards const keep the same range. Compile-time half, as far as overload resolution shows it: per corpus level a root of booleans computed by clang (expression-validity detection) says that no setter is callable on a const-byte view or with a const cursor (plain/init/dont_move/init_dont_move), with positive controls; views and cursors convert only towards const.",
            "DESIGN.md 6 C11", "Rejections implemented as hard errors inside a function body (not enable_if) would not be visible to the detection idiom; element/pointer constness of array references and group/data mutators are not covered."),
    "C12": ("proof", "Contracts + law lemmas on random_access_iterator, forward_iterator, flat/nested group bases for dimension type pairs (3 quick, 16 thorough): entry i at data start + i*wire blockLength, begin()+size()==end(), it[n]==*(it+n), (it+n)-n==it, orderings, nested ++ moves by entry size, resize/clear touch only numInGroup.",
            "DESIGN.md 6 C12", "Iterator arithmetic proved for |n|, blockLength <= 2^20 (product must not overflow int64); n == difference_type minimum excluded for subtracting forms."),
    "C13": ("proof", "One-step refinement of std::vector per dynamic_array_ref operation, unbounded in buffer length, size, position and element index: structure clauses (length prefix, returned iterator, reporting, frame) and content clauses (element k of the new payload equals the vector model's element for a ghost index k). memmove/memset/strlen are ghost-index over-approximations of their ISO C meaning with asserted preconditions (no assumed libc contracts); resize(count[,value]) by a loop contract. push_back, pop_back, erase x2, insert x5 (value, count, forward range, initializer_list, input iterators), resize x3, assign x4, assign_string, assign_range, clear, observers.",
            "DESIGN.md 6 C13", "Bounded and counted separately: insert(pos,first,last) for single-pass input iterators (range <= 2 elements, thorough tier), assign_string into a value_type other than char (string <= 3 chars). Multi-byte length prefixes: content clauses of the insert overloads and erase(first,last) only in the thorough tier (minutes of SAT time)."),
    "C14": ("proof", "static_array_ref<N> for N in {1,2,3,4,8}: strlen/strlen_r/assign_string/fill/assign/element access exact for all 256^N contents; loops unwind completely because N is a template constant (unwinding assertions on).", "DESIGN.md 6 C14",
            "N itself is sampled; memchr is a C stub from the ISO text (CBMC ships no model)."),
    "C16": ("proof", "required_base/optional_base for the 22 built-in types: null, has_value, value_or, in_range, all six comparisons against the documented rules incl. NaN; min/max/null against the SBE table.", "DESIGN.md 6 C16",
            "Schema-defined types with explicit min/max/null are covered per corpus schema when the generated-layer contracts are registered."),
    "C06": ("proof", "size_bytes_checked(view, n) per corpus message on a buffer object of exactly n bytes (unchecked build): any read at offset >= n is a CBMC pointer-check failure for every n and content at once; valid/size against an independent fits predicate; ghost step counter.",
            "DESIGN.md 6 C06", "Two genuine defects are listed as known findings (fields read beyond a short wire block; data length prefix read before validation); messages with groups are bounded (numInGroup <= 2) and counted as bounded; nested groups not covered."),
    "C17": ("translation_validation", GEN + "fill_message_header / fill_group_header of every corpus message and group: each identifying member holds the oracle's value at the oracle's offset and width, the frame is exactly those members' bytes, the result views the header.",
            "DESIGN.md 6 C17", "Header layouts are those of the corpus."),
    "C18": ("translation_validation", GEN + "Every value-returning trait function of every corpus entity (schema, messages, groups, fields, data, types, enums and values, sets and choices, composites) equals the XML value (strings compared character by character). Type-level traits: value_type / value_type_tag / dimension, entry, length, primitive and encoding types / traits_tag_t / the eleven tag-kind predicates / children tag lists in schema order (type_tags as a set) are decided as booleans computed by clang's std::is_same on the instantiated traits and checked bit by bit.",
            "DESIGN.md 6 C18", "Type-level checks are decided by the C++ front end while lowering (the verifier only checks the resulting constants); expected representation types of inline (non-public) composite members are not derived."),
    "C19": ("proof", GEN + "visit_children of every corpus level (without nested groups) with a recording visitor that stops at a symbolic callback ordinal: kinds, schema ids, values/addresses in schema order, stop result, final cursor.",
            "DESIGN.md 6 C19", "Enum/set visiting and by-tag access are covered only where registered; entry loops of groups by the library loop contracts."),
    "C15": ("proof",
            "bitset_base<T> get_bit/set_bit/raw access/==/!=/constructors proved bit-exactly against a 64-bit spec for all 2^W values x all indices x both bool values, W in {8,16,32,64}, with shift-distance checks on; loop-free, so unbounded.",
            "DESIGN.md section 6 C15", "Generated choice accessors/visit are covered per corpus schema only."),
}
_PENDING = "contracts for this property are not registered yet in this revision (work in progress, see DESIGN.md section 6)"
NA = {
    "C07": "whether generated text compiles under ten compiler configurations is not a pre/postcondition of any function; sbeppc's generators (C++17/STL/fmt/pugixml) are outside every installed deductive verifier",
    "C08": "accept/reject logic lives in schema_parser/sbe_schema_validator (std::string/variant/unordered_map/exceptions/pugixml): CBMC's C++ front end cannot parse it and cxx2c cannot lower libstdc++ containers; a C re-implementation would be a model",
    "C09": "whole-process totality over arbitrary bytes/argv (uncaught exceptions, hangs, leftover files) is not expressible as function contracts on code within the verifier's reach",
    "C20": "behaviour under failing mkdir/open/write goes through std::ofstream/std::filesystem; a contract would have to assume a model of iostreams",
}
for _p in ["C01", "C02", "C03", "C04", "C05", "C06", "C10", "C11", "C12", "C13", "C14", "C16", "C17", "C18", "C19"]:
    if _p not in CLAIMED:
        NA[_p] = _PENDING
