#!/bin/bash
# try_seeded.sh <seeded dir> <property>... : apply the change to /repo, run the quick checks, undo it straight afterwards.
d=$(realpath $1); shift
cd /verif
git -C /repo diff --quiet || { echo "/repo has uncommitted changes"; exit 2; }
git -C /repo apply $d/patch.diff || { echo "patch does not apply"; exit 2; }
for p in "$@"; do
  ./check $p --tier quick > /tmp/try_$p.out 2> /tmp/try_$p.err; rc=$?
  echo "== $(basename $d) vs $p: exit $rc"; grep -E "^VIOLATION|^KNOWN|^C[0-9]+ quick" /tmp/try_$p.out; grep -E "violated:|TOOL-ERROR|UNDECIDED" /tmp/try_$p.err | cut -c1-220 | head -8
done
git -C /repo checkout -- .
git -C /verif checkout -- evidence 2>/dev/null
